"""Printable objects used by the C10 driver (imported both by the replay and by the fresh-interpreter
reference runs, so both render exactly the same objects)."""
import hashlib

import sgr

CONTENTS = {
    1: {},
    2: {"TABLE": {"BORDER": "RED", "HEADER": "BLUE:underline", "WARN": "YELLOW"}, "NAME": "MAGENTA",
        "NUMBER": "CYAN:bold", "KEYWORD": "g12", "ERROR": "(5,0,0)/BLUE", "WARN": "CYAN", "OK": "WHITE",
        "RECORD": {"NUMBER": "GREEN", "KEYWORD": "RED:crossed"}, "HDOC": {"ATTR": "RED", "FUNC_NAME": "g5", "TAG": "123"},
        "TEXT": "g18/g3", "X": {"A": "NAME:bold", "B": "YELLOW/BLUE"},
        "GHIST": {"REPO": "RED", "HASH": "g7:bold", "VERSION": "(0,5,0)", "VER_NOT_MERGED": "BLUE:blink", "COMMIT_NAME": "WHITE/RED"}},
}
KINDS = ['pp', 'table', 'table2', 'record', 'help', 'leadblank', 'ghist', 'table4', 'relimit', 'retitle', 'table5', 'table6']


_CONF_SRC = {}        # id(configuration made by make_conf) -> (content, no_color): lets a mode build an equal temporary one


def make_conf(content, nc, temporary=False):
    from ak.color import ColorsConfig
    conf = ColorsConfig(CONTENTS[content], no_color=nc)
    if not temporary:
        _CONF_SRC[id(conf)] = (content, nc)      # no reference is kept (a discarded configuration must really go away);
                                                 # every configuration comes from here, so a reused id is overwritten
    return conf


class Objects:
    """one set of printable objects; field types are shared between the two tables"""

    def __init__(self):
        from ak.ppobj import PPTable, PPEnumFieldType, PPRecordFmt, PrettyPrinter, PPObj
        from ak.color import Palette, ConfColor, CHText
        from ak.hdoc import h_doc
        self.enum = PPEnumFieldType({0: 'Zero', 1: ('One', 'name_good'), 10: ('Ten', 'name_warn')})
        recs = [(1, 'alpha', 0, 0), (22, 'a longer name', 1, 10), (333, None, 7, 1), (4, True, 10, 7), (5, 'e', 4444, 0)]      # 7 and 4444: values the enum does not describe (4444 is longer than all that it does)
        self.table = PPTable(recs, fmt='id:4,name!:3-9,st:12,st2/name:9,st2/val:5;2:2', fields=['id', 'name', 'st', 'st2'],
                             fields_types={'st': self.enum, 'st2': self.enum}, header='Header of the table')
        self.table2 = PPTable(recs[:3], fmt='st/val:2,st/name:4,st2:6', fields=['id', 'name', 'st', 'st2'],
                              fields_types={'st': self.enum, 'st2': self.enum})
        # column titles with several lines, some of them not strings (a number, None, True)
        self.table4 = PPTable(recs[:3], fmt='id:6,name:8,st:9', fields=['id', 'name', 'st', 'st2'], fields_types={'st': self.enum},
                              fields_titles={'id': ('id\nnumber', 555), 'name': ('name', None, True), 'st': ('state\nof it', 7.5)})
        # two tables whose first column uses ONE general FieldType object; their values are equal as Python objects
        # (1 == True == 1.0, Decimal('1234.5') == Decimal('1234.500000')) but print differently
        from ak.ppobj import FieldType
        from decimal import Decimal
        self.plain_ft = FieldType()
        self.table5 = PPTable([(1, 'x'), (22, 'y'), (Decimal('1234.5'), 'z'), (0, 'u')], fmt='v:1-12,w:3', fields=['v', 'w'],
                              fields_types={'v': self.plain_ft})
        self.table6 = PPTable([(True, 'x'), (1.0, 'y'), (Decimal('1234.500000'), 'z'), (False, 'u')], fmt='v:1-12,w:3', fields=['v', 'w'],
                              fields_types={'v': self.plain_ft})
        self.recs = recs
        self.recfmt = PPRecordFmt('id:5,st/full:10,st2/name:6,name:8', fields=['id', 'name', 'st', 'st2'],
                                  fields_types={'st': self.enum, 'st2': self.enum})
        self.rec = recs[2]
        self.pp = PrettyPrinter()
        self.value = {'k': [1, 2.5, 'text', None, True], 'nested': {'x' * 30: ['y' * 60] * 4, 'z': {}}, 'n': list(range(70))}

        class LBPalette(Palette):
            SYNTAX_DEFAULTS = {'X.A': 'GREEN', 'X.B': 'RED'}
            a = ConfColor('X.A')
            b = ConfColor('X.B')

        class LeadBlank(PPObj):
            PALETTE_CLASS = LBPalette

            def gen_ch_lines(self, cp):
                yield CHText()
                yield CHText(cp.a('== title =='), ' ', cp.b('x'))
                yield CHText()
                yield CHText('plain ', cp.text('text'))
        self.leadblank = LeadBlank()

        @h_doc
        class Documented:
            """Class with h-doc.

            Some description.
            """
            def method_a(self, x, y=1):
                """Do something useful.

                #tag1 #tag2
                """
            def method_b(self):
                """Another one."""
        self.documented = Documented()
        self.ghist = _make_ghist_report()


def _make_ghist_report():
    """git history report of a component and a parent repository (mock repositories)"""
    import json
    import ghmock
    from ak.ghist import ProjectRepo, ReposCollection

    class Lib(ProjectRepo):
        pass

    class App(ProjectRepo):
        _COMPONENTS_VERSIONS_LOCATIONS = {'lib': 'DEPENDS'}

        def read_components_from_file(self, v_file_path, blob):
            d = json.load(blob.data_stream)
            return {k: [int(x) for x in v.split('.')] for k, v in d.items()}
    t = 'build_%d_release_1_0_success'
    lib = ghmock.Repo('lib', {1: ([], 'BUG-7 lib a', {}), 2: ([1], 'other', {}), 3: ([2], 'BUG-7 lib b', {}), 4: ([3], 'BUG-7 lib c', {})},
                      {t % 101: 1, t % 103: 3}, {'master': 4, 'release/1.9': 3}, time_step=600)
    dep = lambda n: {'DEPENDS': json.dumps({'lib': '1.0.%d' % n})}
    app = ghmock.Repo('app', {1: ([], 'BUG-7 app a', dep(101)), 2: ([1], 'other', dep(101)), 3: ([1], 'BUG-7 app side', dep(103)),
                              4: ([2, 3], 'merge', dep(103)), 5: ([4], 'BUG-7 app late', dep(103))},
                      {t % 202: 2, t % 204: 4}, {'master': 5, 'release/2.0': 3}, time_step=600)
    coll = ReposCollection({'app': App('app', app, 'origin'), 'lib': Lib('lib', lib, 'origin')})
    return coll.make_report('BUG-7')


def painted(s):
    cells, final, probs = sgr.paint(s)
    return [(c, st) for c, st in cells], probs or (final != sgr.DEFAULT)


def digest(cells):
    return hashlib.sha1(repr(cells).encode()).hexdigest()[:16]


def render(objs, kind, conf, nocolor, mode):
    """-> (colored string whole-or-lines) for the requested mode; for kind 'help' the configuration in force is
    the global one at the moment the HCommand object is created"""
    from ak.color import CHText
    if kind == 'help':
        from ak.color import get_global_colors_config, set_global_colors_config
        from ak.hdoc import HCommand
        old = get_global_colors_config()
        set_global_colors_config(conf)
        try:
            import contextlib
            import io
            buf = io.StringIO()
            with contextlib.redirect_stdout(buf):
                HCommand()(objs.documented)              # the public way: the command prints the help text
            text = buf.getvalue()
            return text[:-1] if text.endswith('\n') else text
        finally:
            set_global_colors_config(old)
    if kind == 'record':
        data = objs.recfmt(objs.rec, colors_conf=conf, no_color=nocolor)
        return str(data.ch_text()) if mode == 'whole' else ' '.join(str(c) for c in data.columns)
    if kind == 'relimit':
        # a table with automatic column widths is printed with limits that hide its widest values, then ONLY the limits
        # are changed and it is printed again: the second printing must be what a table that was given that format from
        # the start prints
        from ak.ppobj import PPTable
        wide = [(1, 'a'), (2, 'a much longer name'), (3, 'b'), (4, 'another long value'), (5, 'c')]
        t = PPTable(wide, fmt='id,name;1:1', fields=['id', 'name'])
        str(t.ch_text(colors_conf=conf, no_color=nocolor))
        t.fmt = ';*'
        second = str(t.ch_text(colors_conf=conf, no_color=nocolor))
        fresh = str(PPTable(wide, fmt='id,name;*', fields=['id', 'name']).ch_text(colors_conf=conf, no_color=nocolor))
        return second if second == fresh else second + '\nMEMORY: a table printed before its limits were changed prints differently from a fresh one'

    if kind == 'retitle':
        # column titles of different heights: the table is printed with its tallest title, then a table built from its
        # format without that column is printed - it must look like a table that never had the column
        from ak.ppobj import PPTable
        titles = {'id': ('id\nof the\nrecord', ), 'name': ('name', ), 'st': ('state', )}
        t = PPTable(objs.recs[:3], fmt='id:6,name:8,st:9', fields=['id', 'name', 'st', 'st2'], fields_types={'st': objs.enum},
                    fields_titles=titles)
        str(t.ch_text(colors_conf=conf, no_color=nocolor))
        second = str(PPTable(objs.recs[:3], fmt_obj=t.fmt, skip_columns=['id']).ch_text(colors_conf=conf, no_color=nocolor))
        fresh = str(PPTable(objs.recs[:3], fmt='name:8,st:9', fields=['id', 'name', 'st', 'st2'], fields_types={'st': objs.enum},
                            fields_titles=titles).ch_text(colors_conf=conf, no_color=nocolor))
        return second if second == fresh else second + '\nMEMORY: a table built from the format of a printed table (one column skipped) prints differently from a fresh one'

    def start(conf, nocolor):
        if kind == 'table4':
            return objs.table4.ch_text(colors_conf=conf, no_color=nocolor)
        if kind in ('table5', 'table6'):
            return getattr(objs, kind).ch_text(colors_conf=conf, no_color=nocolor)
        if kind == 'pp':
            return objs.pp(objs.value, colors_conf=conf, no_color=nocolor)
        if kind == 'table':
            return objs.table.ch_text(colors_conf=conf, no_color=nocolor)
        if kind == 'table2':
            return objs.table2.ch_text(colors_conf=conf, no_color=nocolor)
        if kind == 'ghist':
            return objs.ghist.ch_text(colors_conf=conf, no_color=nocolor)
        return objs.leadblank.ch_text(colors_conf=conf, no_color=nocolor)
    if mode == 'palobj':
        # the colours are given as a ready palette object (made for the configuration) plus no_color
        target = {'pp': objs.pp, 'table': objs.table, 'table2': objs.table2, 'table4': objs.table4, 'ghist': objs.ghist,
                  'table5': objs.table5, 'table6': objs.table6}.get(kind, objs.leadblank)
        pal = type(target).PALETTE_CLASS(conf)
        if kind == 'pp':
            return str(objs.pp(objs.value, palette=pal, no_color=nocolor))
        return str(target.ch_text(palette=pal, no_color=nocolor))
    if mode == 'tempconf':
        # the result is requested with a temporary configuration (same contents) that the caller discards before the
        # result is consumed
        import gc
        src = _CONF_SRC.get(id(conf))
        if src is None:
            return str(start(conf, nocolor))
        temp = make_conf(src[0], src[1], temporary=True)
        res = start(temp, nocolor)
        del temp
        gc.collect()
        lines = list(res)
        return '\n'.join(str(CHText(line)) for line in lines)
    res = start(conf, nocolor)
    if mode == 'whole':
        return str(res)
    if mode == 'lines':
        return '\n'.join(str(CHText(line)) for line in res)
    if mode == 'collect':
        # all lines are collected first and turned into text afterwards
        lines = list(res)
        return '\n'.join(str(CHText(line)) for line in lines)
    # 'inter1' / 'inter2': a second rendering of the same object under another configuration is consumed in
    # alternation (side by side printing); it is started first / second
    other = iter(start(_other_conf(), not nocolor))
    mine = iter(res)
    out = []
    first = True
    while True:
        if mode == 'inter1' or not first:
            next(other, None)
        first = False
        try:
            line = next(mine)
        except StopIteration:
            break
        out.append(line)
        if mode == 'inter2' and len(out) == 1:
            next(other, None)
    for _ in other:
        pass
    return '\n'.join(str(CHText(line)) for line in out)


_OTHER = []


def _other_conf():
    if not _OTHER:
        _OTHER.append(make_conf(2, False))
    return _OTHER[0]


LINE_MODES = ('lines', 'collect', 'inter1', 'inter2', 'palobj', 'tempconf')


def render_linewise(objs, kind, conf, nocolor, whole):
    """the object consumed line by line in every supported way; returns the first result that differs from the
    whole text (or the whole text when all agree)"""
    if kind in ('help', 'record', 'relimit', 'retitle'):
        return render(objs, kind, conf, nocolor, 'lines')
    for mode in LINE_MODES:
        s = render(objs, kind, conf, nocolor, mode)
        if s != whole:
            return s
    return whole


if __name__ == '__main__':
    # fresh-interpreter reference: python c10_objs.py <repo> <kind> <content> <effnc>
    import json
    import sys
    sys.path.insert(0, sys.argv[1])
    kind, content, effnc = sys.argv[2], int(sys.argv[3]), sys.argv[4] == '1'
    o = Objects()
    s = render(o, kind, make_conf(content, effnc), effnc if kind != 'help' else None, 'whole')
    cells, bad = painted(s)
    print(json.dumps({'digest': digest(cells), 'bad': bool(bad), 'esc': '\x1b' in s, 'text': ''.join(c for c, _ in cells)}))
