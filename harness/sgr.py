"""Independent tokenizer / interpreter of SGR escape sequences (not the package's regex).

items(s)   -> list of ('ch', c) | ('sgr', [params...]) | ('esc', raw)   ('esc' = malformed / foreign escape)
paint(s)   -> list of (char, state) where state = (fg, bg, frozenset(effects)) as a terminal that starts in
              default state would show it, plus the final state
"""

DEFAULT = (None, None, frozenset())
EFFECTS = {1: 'bold', 2: 'faint', 4: 'underline', 5: 'blink', 9: 'crossed'}


def items(s):
    out = []
    i, n = 0, len(s)
    while i < n:
        c = s[i]
        if c != '\x1b':
            out.append(('ch', c))
            i += 1
            continue
        j = i + 1
        if j < n and s[j] == '[':
            k = j + 1
            while k < n and s[k] in '0123456789;:':
                k += 1
            if k < n and s[k] == 'm':
                out.append(('sgr', s[j + 1:k]))
                i = k + 1
                continue
        out.append(('esc', s[i:i + 8]))
        i += 1
    return out


def apply_sgr(state, body):
    """state after one SGR sequence with parameter text `body`; returns None if a parameter is unknown"""
    fg, bg, eff = state
    eff = set(eff)
    params = body.split(';') if body != '' else ['0']
    for p in params:
        if p == '':
            p = '0'
        if ':' in p:
            parts = p.split(':')
            if len(parts) == 3 and parts[0] in ('38', '48') and parts[1] == '5' and parts[2].isdigit() \
                    and 0 <= int(parts[2]) <= 255:
                if parts[0] == '38':
                    fg = ('idx', int(parts[2]))
                else:
                    bg = ('idx', int(parts[2]))
                continue
            return None
        if not p.isdigit():
            return None
        v = int(p)
        if v == 0:
            fg, bg, eff = None, None, set()
        elif v in EFFECTS:
            eff.add(EFFECTS[v])
        elif 30 <= v <= 37:
            fg = ('name', v - 30)
        elif 40 <= v <= 47:
            bg = ('name', v - 40)
        elif v == 39:
            fg = None
        elif v == 49:
            bg = None
        else:
            return None
    return (fg, bg, frozenset(eff))


def paint(s):
    """-> (cells, final_state, problems)"""
    st = DEFAULT
    cells, problems = [], []
    for kind, v in items(s):
        if kind == 'ch':
            cells.append((v, st))
        elif kind == 'sgr':
            n = apply_sgr(st, v)
            if n is None:
                problems.append('unknown SGR parameters %r' % v)
            else:
                st = n
        else:
            problems.append('stray escape %r' % v)
    return cells, st, problems
