"""TLC runner and output parser used by all drivers.

run_tlc() runs one TLC invocation (model checking or simulation) of a module that
lives under /verif/specs, with an explicit config text, a private meta directory and
optional environment variables (read in the specs through IOEnv).  It returns the
statistics TLC printed, every value printed with PrintT (JSON strings produced by
ToJson are decoded) and the raw output.
"""

import json
import os
import re
import subprocess
import time

VERIF = os.path.dirname(os.path.dirname(os.path.abspath(__file__)))
SPECS = os.path.join(VERIF, 'specs')
JAR = '/opt/veriftools/tla/tla2tools.jar'
DEPS = '/opt/veriftools/tla/CommunityModules-deps.jar'


class TLCError(Exception):
    """TLC did not finish the way the harness needs (machinery failure)."""


class TLCResult:
    def __init__(self):
        self.generated = 0      # states generated (successor computations ~ transitions)
        self.distinct = 0       # distinct states
        self.depth = 0
        self.printed = []       # decoded PrintT values (json) or raw strings
        self.raw_printed = []   # lines TLC printed that are not part of its chatter
        self.out = ''
        self.rc = None
        self.wall = 0.0
        self.invariant_violated = None   # name or None
        self.error_trace = None          # text of counter-example, if any
        self.coverage = {}               # action -> (distinct, generated)
        self.finished = False
        self.timed_out = False


_STATS = re.compile(r'^(\d+) states generated, (\d+) distinct states found')
_SIMSTATS = re.compile(r'The number of states generated: (\d+)')
_DEPTH = re.compile(r'The depth of the complete state graph search is (\d+)')
_INV = re.compile(r'Error: Invariant (\S+) is violated')
_ACTPROP = re.compile(r'Error: Action property (\S+) is violated')
_COV = re.compile(r'^<(\w+) line (\d+), col \d+ to line \d+, col \d+ of module (\w+)>: (\d+):(\d+)')


def run_tlc(module_path, cfg_text, tmpdir, env=None, workers=16, simulate=None,
            depth=None, seed=None, timeout=3600, coverage=False, dfs=False,
            extra=None, heap='8g', decode=True):
    """Run TLC.  module_path: path relative to specs/ (e.g. 'uuid/ShortUuid.tla').

    simulate: None or an int (number of behaviours per TLC run; workers forced to given).
    decode=False: printed JSON values stay JSON text (decoded by the consumer; keeps memory small on huge runs).
    Returns TLCResult.  Raises TLCError on a machinery problem (parse error, crash, timeout).
    """
    full = module_path if os.path.isabs(module_path) else os.path.join(SPECS, module_path)
    if not os.path.exists(full):
        raise TLCError('no such spec ' + full)
    os.makedirs(tmpdir, exist_ok=True)
    tag = '%s_%d_%d' % (os.path.basename(full)[:-4], os.getpid(), int(time.time() * 1000) % 10 ** 9)
    cfg_path = os.path.join(tmpdir, tag + '.cfg')
    with open(cfg_path, 'w') as f:
        f.write(cfg_text)
    meta = os.path.join(tmpdir, tag + '.meta')
    jopts = ['-XX:+UseParallelGC', '-Xmx' + heap, '-Xss64m']
    if dfs:
        jopts.append('-Dtlc2.tool.queue.IStateQueue=StateDeque')
    cmd = ['java'] + jopts + ['-cp', JAR + ':' + DEPS, 'tlc2.TLC',
                              '-noGenerateSpecTE', '-metadir', meta, '-config', cfg_path,
                              '-workers', str(workers)]
    if simulate is not None:
        cmd += ['-simulate', 'num=%d' % simulate]
        if depth:
            cmd += ['-depth', str(depth)]
    if seed is not None:
        cmd += ['-seed', str(seed)]
    if coverage:
        cmd += ['-coverage', '1']
    if extra:
        cmd += list(extra)
    cmd.append(full)
    e = dict(os.environ)
    e.pop('JAVA_TOOL_OPTIONS', None)
    if env:
        e.update({k: str(v) for k, v in env.items()})
    res = TLCResult()
    t0 = time.time()
    try:
        p = subprocess.run(cmd, stdout=subprocess.PIPE, stderr=subprocess.STDOUT, env=e,
                           timeout=timeout, cwd=os.path.dirname(full))
        res.out = p.stdout.decode('utf-8', 'replace')
        res.rc = p.returncode
    except subprocess.TimeoutExpired as ex:
        res.out = (ex.stdout or b'').decode('utf-8', 'replace')
        res.timed_out = True
        subprocess.run(['pkill', '-f', meta], stdout=subprocess.DEVNULL, stderr=subprocess.DEVNULL)
    res.wall = time.time() - t0
    _parse(res, decode)
    if not decode:
        res.out = res.out[-20000:]
    import shutil
    shutil.rmtree(meta, ignore_errors=True)
    if res.timed_out:
        raise TLCError('TLC timed out after %ss on %s' % (timeout, module_path))
    if not res.finished and res.invariant_violated is None:
        raise TLCError('TLC failed on %s (rc=%s):\n%s' % (module_path, res.rc, _tail(res.out)))
    return res


def _tail(s, n=60):
    return '\n'.join(s.splitlines()[-n:])


def _parse(res, decode=True):
    lines = res.out.splitlines()
    in_trace = False
    trace = []
    for ln in lines:
        m = _STATS.match(ln)
        if m:
            res.generated = int(m.group(1))
            res.distinct = int(m.group(2))
            continue
        m = _SIMSTATS.search(ln)
        if m:
            res.generated = int(m.group(1))
            res.distinct = max(res.distinct, 1)
            res.finished = True if 'Error' not in res.out else res.finished
            continue
        m = _DEPTH.search(ln)
        if m:
            res.depth = int(m.group(1))
            continue
        m = _INV.search(ln) or _ACTPROP.search(ln)
        if m:
            res.invariant_violated = m.group(1)
            in_trace = True
            continue
        m = _COV.match(ln)
        if m:
            key = m.group(3) + '!' + m.group(1)
            a, b = int(m.group(4)), int(m.group(5))
            if key in res.coverage:
                a += res.coverage[key][0]
                b += res.coverage[key][1]
            res.coverage[key] = (a, b)
            continue
        if ln.startswith('Model checking completed. No error has been found.'):
            res.finished = True
            continue
        if in_trace:
            trace.append(ln)
        if ln.startswith('"') and ln.endswith('"'):
            try:
                s = json.loads(ln)
            except ValueError:
                res.raw_printed.append(ln)
                continue
            if not decode:
                res.printed.append(s)
                continue
            try:
                res.printed.append(json.loads(s))
            except ValueError:
                res.printed.append(s)
        elif ln.startswith('<<') and ln.endswith('>>'):
            res.raw_printed.append(ln)
    if 'Finished in' in res.out and 'Error:' not in res.out:
        res.finished = True
    if trace:
        res.error_trace = '\n'.join(trace[:400])


def sany(path):
    """Parse one module with SANY; returns (ok, output)."""
    p = subprocess.run(['java', '-cp', JAR + ':' + DEPS, 'tla2sany.SANY', path],
                       stdout=subprocess.PIPE, stderr=subprocess.STDOUT,
                       cwd=os.path.dirname(path))
    out = p.stdout.decode('utf-8', 'replace')
    ok = p.returncode == 0 and 'Error' not in out and 'error' not in out.lower().replace('errors: 0', '')
    return ok, out
