#!/venv/bin/python
"""setup_cmd: byte-compile the harness (syntax check) and parse every spec with SANY."""
import glob
import os
import sys
from concurrent.futures import ThreadPoolExecutor

HERE = os.path.dirname(os.path.abspath(__file__))
sys.path.insert(0, HERE)
import tlc  # noqa: E402


def main():
    bad = 0
    for p in glob.glob(os.path.join(HERE, '**', '*.py'), recursive=True):
        try:
            with open(p) as f:
                compile(f.read(), p, 'exec')
        except SyntaxError as e:
            print('PY-ERROR', p, e)
            bad += 1
    mods = sorted(glob.glob(os.path.join(tlc.SPECS, '*', '*.tla')))
    with ThreadPoolExecutor(8) as ex:
        for p, (ok, out) in zip(mods, ex.map(tlc.sany, mods)):
            if not ok:
                print('SANY-ERROR', p)
                print(out[-2000:])
                bad += 1
    print('setup: %d specs parsed, %d problems' % (len(mods), bad))
    sys.exit(1 if bad else 0)


if __name__ == '__main__':
    main()
