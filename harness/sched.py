"""Deterministic scheduler for real threads at the granularity of shared-memory accesses (C16).

Worker threads run real library code.  sys.monitoring INSTRUCTION events are enabled for the code objects of
ak.conn_http._HttpConnImpl; before every instruction that loads or stores a *shared mutable attribute* (an
attribute name that some method other than __init__ stores to, found by scanning the bytecode of the working
tree - currently only _cur_req_id) the running thread stops and hands control to the controller, which lets
exactly one thread proceed at a time.  The request-id lock of the connection is replaced by a cooperative
shim, so "blocked on the lock" is a scheduler state instead of a real block.

explore() enumerates ALL schedules of the program (stateless depth-first search with re-execution), so a
removed or narrowed lock simply yields more schedules.  Every execution returns its event trace.
"""
import dis
import sys
import threading

TOOL = 3        # sys.monitoring tool id


class Blocked(Exception):
    pass


class _Shim:
    """cooperative lock: acquire is a scheduling point; blocks only through the scheduler"""

    def __init__(self, sch):
        self.sch = sch
        self.holder = None
        sch.shims.append(self)

    def __enter__(self):
        self.sch.lock_acquire(self)
        return self

    def __exit__(self, *a):
        self.sch.lock_release(self)
        return False

    def acquire(self, blocking=True, timeout=-1):
        if not blocking or (timeout is not None and timeout >= 0):
            # a bounded wait may expire: when the attempt is scheduled while another thread holds the lock it fails (the
            # schedules in which the attempt comes after the release are the ones where the wait was long enough)
            return self.sch.lock_try_acquire(self)
        self.sch.lock_acquire(self)
        return True

    def release(self):
        self.sch.lock_release(self)


def shared_names(cls):
    """attribute names stored by any method other than __init__ (mutable shared state)"""
    names = set()
    for name, fn in vars(cls).items():
        f = getattr(fn, '__func__', fn)
        code = getattr(f, '__code__', None)
        if code is None or name == '__init__':
            continue
        for ins in dis.get_instructions(code):
            if ins.opname == 'STORE_ATTR':
                names.add(ins.argval)
            if ins.opname == 'STORE_GLOBAL':
                names.add('global:' + ins.argval)
    return names


class ThreadingShim:
    """stands in for the `threading` module inside the module under test: every Lock it creates - in __init__
    or lazily - is a cooperative lock known to the scheduler"""

    def __init__(self, sch):
        import threading as _t
        self._t = _t
        self._sch = sch

    def Lock(self):
        return _Shim(self._sch)

    RLock = Lock

    def __getattr__(self, name):
        return getattr(self._t, name)


class Scheduler:
    def __init__(self, cls, impl_getter):
        """cls: the class (or classes) whose instances hold the shared state; impl_getter() -> the shared object, or a
        list of shared objects, of the current execution"""
        self.classes = list(cls) if isinstance(cls, (list, tuple, set)) else [cls]
        self.cls = self.classes[0] if self.classes else None
        self.impl_getter = impl_getter
        self.names = set()
        for c in self.classes:
            self.names |= shared_names(c)
        self.codes = {}
        for c in self.classes:
            for name, fn in vars(c).items():
                f = getattr(fn, '__func__', fn)
                f = getattr(f, 'fget', f) if isinstance(f, property) else f
                code = getattr(f, '__code__', None)
                if code is not None and name != '__init__':
                    pts = {}
                    for ins in dis.get_instructions(code):
                        if ins.opname in ('LOAD_ATTR', 'STORE_ATTR') and ins.argval in self.names:
                            pts[ins.offset] = ('load' if ins.opname == 'LOAD_ATTR' else 'store', ins.argval)
                        elif ins.opname in ('LOAD_GLOBAL', 'STORE_GLOBAL') and ('global:' + str(ins.argval)) in self.names:
                            pts[ins.offset] = ('load' if ins.opname == 'LOAD_GLOBAL' else 'store', 'global:' + ins.argval)
                    if pts:
                        self.codes[code] = pts
        self.cv = threading.Condition()
        self.shims = []           # cooperative locks created for / during the current execution
        self.reset()

    def reset(self):
        self.state = {}        # tid -> 'run' | 'wait' | 'blocked' | 'done'
        self.pending = {}      # tid -> descriptor of the point it waits at
        self.turn = None
        self.trace = []
        self.tids = {}         # thread ident -> tid
        self.pending_store = {}   # tid -> index of a store event whose value is not known yet

    # ---- called in worker threads -----------------------------------------------------------------
    def _me(self):
        return self.tids.get(threading.get_ident())

    def _fill(self, tid):
        """a store event is logged before the store happens; its value is read back when the same thread
        next talks to the scheduler (no other thread has run in between)"""
        i = self.pending_store.pop(tid, None)
        if i is not None:
            ev = self.trace[i]
            ev['v'] = self._read(ev['name'])

    def _objs(self):
        o = self.impl_getter()
        return list(o) if isinstance(o, (list, tuple)) else [o]

    def _read(self, name):
        try:
            if name.startswith('global:'):
                v = sys.modules[self.cls.__module__].__dict__.get(name[7:])
            else:
                v = None
                for o in self._objs():
                    if hasattr(o, name):
                        v = getattr(o, name, None)
                        break
        except Exception:
            v = None
        return v if isinstance(v, int) and not isinstance(v, bool) else -9

    def _yield(self, desc):
        tid = self._me()
        if tid is None:
            return
        self._fill(tid)
        with self.cv:
            self.state[tid] = 'wait'
            self.pending[tid] = desc
            self.cv.notify_all()
            while self.turn != tid:
                self.cv.wait()
            self.turn = None
            self.state[tid] = 'run'

    def on_instruction(self, code, offset):
        pts = self.codes.get(code)
        if pts is None:
            return sys.monitoring.DISABLE
        p = pts.get(offset)
        if p is None:
            return sys.monitoring.DISABLE
        if self._me() is None:
            return None
        kind, name = p
        if not name.startswith('global:') and not any(hasattr(o, name) for o in self._objs()):
            return None        # same attribute name on some thread-local object (e.g. response.data)
        self._yield((kind, name))
        # the access itself happens right after we return; log the value seen/stored afterwards via hooks
        tid = self._me()
        self.trace.append({'t': tid, 'k': kind, 'name': name, 'v': self._read(name) if kind == 'load' else None})
        if kind == 'store':
            self.pending_store[tid] = len(self.trace) - 1
        return None

    def lock_acquire(self, shim):
        tid = self._me()
        if tid is None:
            return
        while True:
            self._yield(('acq', id(shim)))
            with self.cv:
                if shim.holder is None:
                    shim.holder = tid
                    self.trace.append({'t': tid, 'k': 'acq', 'v': 0})
                    return
                # lock is taken: become blocked until the controller wakes us after a release
                self.state[tid] = 'blocked'
                self.cv.notify_all()
                while self.turn != tid:
                    self.cv.wait()
                self.turn = None
                self.state[tid] = 'run'

    def lock_try_acquire(self, shim):
        tid = self._me()
        if tid is None:
            return True
        self._yield(('acq', id(shim)))
        with self.cv:
            if shim.holder is None:
                shim.holder = tid
                self.trace.append({'t': tid, 'k': 'acq', 'v': 0})
                return True
            return False

    def lock_release(self, shim):
        tid = self._me()
        if tid is None:
            return
        self._fill(tid)
        with self.cv:
            shim.holder = None
            self.trace.append({'t': tid, 'k': 'rel', 'v': 0})
            for t, s in self.state.items():
                if s == 'blocked':
                    self.state[t] = 'wait'        # its pending operation is still the acquisition it blocked on

    # ---- controller ------------------------------------------------------------------------------
    def run(self, bodies, choices, max_steps=10000, chooser=None, shim=None):
        """bodies: list of callables (one per thread); choices: list of tids to prefer at each step, or
        chooser(step, enabled, pending ops, lock holder) -> tid.
        Returns (trace, enabled_sets, chosen) ; raises RuntimeError on deadlock"""
        self.reset()
        threads = []
        started = threading.Event()

        def wrap(tid, body):
            def f():
                self.tids[threading.get_ident()] = tid
                started.wait()
                self._yield(('start', ''))
                try:
                    body()
                finally:
                    self._fill(tid)
                    with self.cv:
                        self.state[tid] = 'done'
                        self.cv.notify_all()
            return f
        for i, b in enumerate(bodies):
            tid = i + 1
            self.state[tid] = 'run'
            th = threading.Thread(target=wrap(tid, b), daemon=True)
            threads.append(th)
            th.start()
        started.set()
        enabled_sets, chosen = [], []
        step = 0
        while True:
            with self.cv:
                while any(s == 'run' for s in self.state.values()) or self.turn is not None:
                    self.cv.wait(timeout=30)
                live = [t for t, s in self.state.items() if s != 'done']
                if not live:
                    break
                en = sorted(t for t, s in self.state.items() if s == 'wait')
                if not en:
                    raise RuntimeError('deadlock: %s' % self.state)
                starting = [t for t in en if self.pending.get(t, ('',))[0] == 'start']
                if starting:
                    en = starting[:1]      # a thread start commutes with everything: no branching
                if chooser is not None:
                    pick = chooser(step, en, {t: self.pending.get(t) for t in en}, {id(x): x.holder for x in self.shims})
                else:
                    pick = choices[step] if step < len(choices) and choices[step] in en else en[0]
                enabled_sets.append(en)
                chosen.append(pick)
                step += 1
                if step > max_steps:
                    raise RuntimeError('too many steps')
                self.state[pick] = 'run'
                self.turn = pick
                self.cv.notify_all()
        for th in threads:
            th.join(timeout=10)
        self.shims = []
        return self.trace, enabled_sets, chosen


def install(sch):
    mon = sys.monitoring
    try:
        mon.use_tool_id(TOOL, 'verif-sched')
    except ValueError:
        pass
    mon.register_callback(TOOL, mon.events.INSTRUCTION, sch.on_instruction)
    for code in sch.codes:
        mon.set_local_events(TOOL, code, mon.events.INSTRUCTION)


def uninstall(sch):
    mon = sys.monitoring
    for code in sch.codes:
        mon.set_local_events(TOOL, code, 0)
    mon.register_callback(TOOL, mon.events.INSTRUCTION, None)
    try:
        mon.free_tool_id(TOOL)
    except ValueError:
        pass


def explore(sch, make_bodies, limit=100000, stop=None):
    """All schedules by stateless DFS.  make_bodies() builds fresh objects and returns (bodies, finish) where
    finish(trace) -> result of one execution.  Yields results."""
    stack = []          # list of (enabled, chosen) per step for the current path
    prefix = []
    n = 0
    while True:
        bodies, finish = make_bodies()
        trace, enabled, chosen = sch.run(bodies, prefix)
        n += 1
        yield finish(trace, chosen)
        if n >= limit or (stop and stop()):
            return
        # backtrack: last step with an untried alternative (alternatives tried in increasing tid order)
        i = len(chosen) - 1
        while i >= 0:
            alts = [t for t in enabled[i] if t > chosen[i]]
            if alts:
                prefix = chosen[:i] + [alts[0]]
                break
            i -= 1
        if i < 0:
            return


def independent(a, b, ta, tb, holder):
    """may the transitions of threads ta (pending op a) and tb (pending op b) be swapped?  A transition runs from one
    scheduling point to the next, so a thread that holds the lock may release it inside its transition."""
    if a is None or b is None:
        return False
    if a[0] == 'start' or b[0] == 'start':
        return True
    holder = holder or {}
    if a[0] == 'acq' or b[0] == 'acq':
        if a[0] == 'acq' and b[0] == 'acq':
            return a[1] != b[1]                    # two acquisitions conflict only on the same lock
        lock, other = (a[1], tb) if a[0] == 'acq' else (b[1], ta)
        return holder.get(lock) != other           # the holder's transition may contain the release
    return not (a[1] == b[1] and (a[0] == 'store' or b[0] == 'store'))


def explore_sleep(sch, make_bodies, limit=100000):
    """All schedules up to commutation of independent transitions (sleep sets, stateless DFS with re-execution).
    make_bodies() -> (bodies, finish, shim).  Yields finish(trace, chosen) for every completed execution."""
    frames = []       # per step: en, ops, holder, sleep, done, chosen
    n = 0
    while True:
        bodies, finish, shim = make_bodies()
        blocked = [False]

        def chooser(step, en, ops, holder):
            if step < len(frames):
                f = frames[step]
                return f['chosen'] if f['chosen'] in en else en[0]
            if frames:
                p = frames[-1]
                pop_ = p['ops'].get(p['chosen'])
                sleep = {t for t in (p['sleep'] | p['done']) if t != p['chosen'] and t in ops and
                         independent(p['ops'].get(t), pop_, t, p['chosen'], p['holder']) and p['ops'].get(t) == ops.get(t)}
            else:
                sleep = set()
            cand = [t for t in en if t not in sleep]
            if not cand:
                blocked[0] = True          # every continuation from here is covered by another schedule
                cand = en
            frames.append({'en': list(en), 'ops': dict(ops), 'holder': holder, 'sleep': sleep, 'done': set(), 'chosen': cand[0]})
            return cand[0]
        trace, enabled, chosen = sch.run(bodies, [], chooser=chooser, shim=shim)
        del frames[len(chosen):]
        n += 1
        if not blocked[0]:
            yield finish(trace, chosen)
        if n >= limit:
            return
        while frames:
            f = frames[-1]
            f['done'].add(f['chosen'])
            cand = [t for t in f['en'] if t not in f['sleep'] and t not in f['done']]
            if cand:
                f['chosen'] = cand[0]
                break
            frames.pop()
        if not frames:
            return
