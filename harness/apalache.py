"""Apalache runner (symbolic model checker for TLA+) - used for inductive invariants."""
import os
import shutil
import subprocess
import time


class ApalacheError(Exception):
    pass


def check(module_path, init, inv, length, tmpdir, cinit='CInit', timeout=1500):
    """apalache-mc check --cinit=.. --init=.. --inv=.. --length=..  -> (ok, seconds, tail of the output)"""
    exe = shutil.which('apalache-mc')
    if exe is None:
        raise ApalacheError('apalache-mc is not on PATH')
    out = os.path.join(tmpdir, 'apalache_%s_%s_%d' % (init, inv, length))
    cmd = [exe, 'check', '--cinit=' + cinit, '--init=' + init, '--inv=' + inv, '--length=%d' % length,
           '--out-dir=' + out, os.path.basename(module_path)]
    t0 = time.time()
    try:
        p = subprocess.run(cmd, stdout=subprocess.PIPE, stderr=subprocess.STDOUT, cwd=os.path.dirname(module_path), timeout=timeout)
    except subprocess.TimeoutExpired:
        raise ApalacheError('apalache-mc timed out after %ds (%s => %s, length %d)' % (timeout, init, inv, length))
    txt = p.stdout.decode('utf-8', 'replace')
    shutil.rmtree(out, ignore_errors=True)
    if 'EXITCODE: OK' in txt:
        return True, time.time() - t0, txt[-400:]
    if 'violated' in txt or 'The outcome is: Error' in txt:
        return False, time.time() - t0, txt[-1500:]
    raise ApalacheError('apalache-mc failed (%s => %s): %s' % (init, inv, txt[-800:]))
