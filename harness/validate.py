#!/usr/bin/env python3
"""dev helper: validate MANIFEST.json and evidence files (run with python3-vt)."""
import glob, json, sys, jsonschema
ok = True
def v(p, s):
    global ok
    try:
        jsonschema.validate(json.load(open(p)), json.load(open(s)))
    except Exception as e:
        ok = False
        print('INVALID', p, str(e)[:300])
v('/verif/MANIFEST.json', '/root/.vp/MANIFEST.schema.json')
for p in sorted(glob.glob('/verif/evidence/*.json')):
    v(p, '/root/.vp/EVIDENCE.schema.json')
print('valid' if ok else 'PROBLEMS')
sys.exit(0 if ok else 1)
