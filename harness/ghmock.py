"""In-memory git repository for the ghist drivers (same interface as the repository's tests/mock_git.py, with
deterministic commit times and hexsha values)."""
import io
from hashlib import sha1

BASE_TIME = 1_700_000_000


class _Author:
    def __init__(self, name):
        self.name = name


class _Blob:
    def __init__(self, contents):
        self.data = contents.encode()
        self.hexsha = sha1(self.data).hexdigest()

    @property
    def data_stream(self):
        return io.BytesIO(self.data)


class _Tree:
    def __init__(self, files):
        self.files = {p: _Blob(c) for p, c in files.items()}

    def __truediv__(self, path):
        return self.files[path]


class Commit:
    def __init__(self, repo_name, intid, message, files, time_step, when=None):
        self.intid = intid
        s = '%05d' % intid
        hs = sha1((repo_name + s).encode()).hexdigest()
        self.hexsha = hs[:1] + s + hs[6:]
        self.parents = []
        self.message = message
        self.tree = _Tree(files)
        self.committed_date = BASE_TIME + intid * time_step if when is None else BASE_TIME + when
        self.author = _Author('Author %d' % (intid % 3))

    def __repr__(self):
        return 'Commit(%d %s)' % (self.intid, self.message)


class _Ref:
    def __init__(self, name, commit):
        self.name = name
        self.head_commit = commit
        self.hexsha = commit.hexsha


class _Remote:
    def __init__(self, refs):
        self.refs = refs


class Repo:
    """commits: {intid: (parents, message, files)}, tags: {tag: intid}, heads: {branch name: intid}"""

    def __init__(self, name, commits, tags, heads, time_step=3600, times=None):
        self.name = name
        self.git_dir = '/mock/' + name
        self.working_dir = self.git_dir
        self.all_commits = {}
        for intid in sorted(commits):
            ps, msg, files = commits[intid]
            self.all_commits[intid] = Commit(name, intid, msg, files, time_step, None if times is None else times[intid])
        for intid, (ps, _, _) in commits.items():
            self.all_commits[intid].parents = [self.all_commits[p] for p in ps]
        self.refs = {}
        for tag, intid in tags.items():
            self.refs['refs/tags/' + tag] = _Ref(tag, self.all_commits[intid])
        for br, intid in heads.items():
            self.refs['refs/remotes/origin/' + br] = _Ref('origin/' + br, self.all_commits[intid])
        self.remotes = {'origin': _Remote([self.refs[k] for k in sorted(self.refs) if k.startswith('refs/remotes/origin/')])}
        self.by_hex = {c.hexsha: c for c in self.all_commits.values()}

    def commit(self, hexsha):
        return self.by_hex[hexsha]

    def iter_refs(self, *prefixes):
        for name, ref in self.refs.items():
            if any(name.startswith(p) for p in prefixes):
                yield name, ref.head_commit.hexsha
