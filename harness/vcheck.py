#!/venv/bin/python
"""Single entry point of the verification machinery.

    vcheck.py <Cxx> [--tier quick|thorough] [--replay PATH]

Loads harness/drivers/<cxx>.py and calls its run(ctx) (or replay(ctx, case)).
Exit status: 0 = property held on everything explored (known findings are printed as
KNOWN-FINDING lines), 1 = at least one VIOLATION line was printed, 2 = machinery failure.
"""

import argparse
import hashlib
import importlib
import json
import os
import random
import shutil
import sys
import tempfile
import time
import traceback

HERE = os.path.dirname(os.path.abspath(__file__))
VERIF = os.path.dirname(HERE)
sys.path.insert(0, HERE)
REPO = os.environ.get('VERIF_REPO', '/repo')
# dev runs against seeded changes write their evidence / replay files elsewhere (harness/mutants.py)
EVID_DIR = os.environ.get('VERIF_EVIDENCE_DIR', os.path.join(VERIF, 'evidence'))
REPLAY_DIR = os.environ.get('VERIF_REPLAY_DIR', os.path.join(VERIF, 'replays'))
os.environ.setdefault('AK_PY_VERIF', '1')      # hook guard (see MANIFEST.hooks)
os.environ.setdefault('PYTHONHASHSEED', '0')
sys.dont_write_bytecode = True
sys.path.insert(0, REPO)

import tlc as tlcmod  # noqa: E402


class Machinery(Exception):
    """Something in the checking machinery itself is broken (exit 2)."""


class Ctx:
    def __init__(self, pid, tier, seed):
        self.pid = pid
        self.tier = tier
        self.seed = seed
        self.rnd = random.Random(seed)
        self.tmp = tempfile.mkdtemp(prefix='vcheck_%s_' % pid)
        self.repo = REPO
        self.t0 = time.time()
        self.states = 0
        self.transitions = 0
        self.traces = 0            # cases/traces replayed into or recorded from real code
        self.samples = []
        self.extra = {}            # extra coverage keys
        self.assumptions = []
        self.violations = []       # (what, replay path)
        self.known_hits = {}       # finding id -> count
        self.drift = []
        self.tlc_runs = []
        self.exhaustive = None
        self._known = _load_known(pid)
        self.quick = tier == 'quick'

    # ---- TLC ------------------------------------------------------------------------
    def tlc(self, module, cfg, env=None, count=True, expect_violation=False, **kw):
        kw.setdefault('seed', self.seed if kw.get('simulate') else None)
        if kw.get('seed') is None:
            kw.pop('seed')
        try:
            r = tlcmod.run_tlc(module, cfg, self.tmp, env=env, **kw)
        except tlcmod.TLCError as e:
            raise Machinery(str(e))
        if count:
            self.states += r.distinct
            self.transitions += r.generated
        self.tlc_runs.append({'module': module, 'distinct': r.distinct, 'generated': r.generated,
                              'wall_s': round(r.wall, 2), 'mode': 'simulate' if kw.get('simulate') else 'bfs'})
        if r.invariant_violated and not expect_violation:
            raise Machinery('TLC reports %s violated inside model %s:\n%s' % (
                r.invariant_violated, module, (r.error_trace or '')[:3000]))
        return r

    # ---- verdicts ---------------------------------------------------------------------
    def violation(self, case, what, tags=()):
        """Report that the real code broke the property on `case`.

        tags: names of structural predicates the case satisfies; a known finding whose
        predicate is among them turns the report into a KNOWN-FINDING line."""
        for k in self._known:
            if k['predicate'] in tags:
                self.known_hits[k['id']] = self.known_hits.get(k['id'], 0) + 1
                k.setdefault('_example', case)
                return False
        if len(self.violations) >= 20:
            self.violations.append((what, None))
            return True
        os.makedirs(REPLAY_DIR, exist_ok=True)
        blob = json.dumps({'property': self.pid, 'what': what, 'case': case}, sort_keys=True, default=str)
        name = '%s_%s.json' % (self.pid, hashlib.sha1(blob.encode()).hexdigest()[:12])
        path = os.path.join(REPLAY_DIR, name)
        with open(path, 'w') as f:
            f.write(blob)
        self.violations.append((what, path))
        print('VIOLATION property=%s replay=%s' % (self.pid, path))
        print('  what: %s' % what)
        sys.stdout.flush()
        return True

    def note_drift(self, msg):
        if len(self.drift) < 50:
            self.drift.append(msg)
        print('DRIFT property=%s %s' % (self.pid, msg))

    def sample(self, case, limit=5):
        if len(self.samples) < limit:
            self.samples.append(case)

    def selftest(self, ok, what):
        """A deliberately corrupted observation must be rejected by the judge."""
        if not ok:
            raise Machinery('negative self-test accepted: ' + what)

    # ---- evidence -----------------------------------------------------------------------
    def finish(self):
        for k in self._known:
            n = self.known_hits.get(k['id'], 0)
            if n:
                print('KNOWN-FINDING: property=%s %s [%s; %d case(s) in this run]' % (
                    self.pid, k['what'], k['id'], n))
        cov = {
            'states': int(self.states),
            'transitions': int(self.transitions),
            'traces_validated_against_impl': int(self.traces),
            'samples': self.samples or ['(no sample recorded)'],
            'tlc_runs': self.tlc_runs,
            'drift': self.drift,
            'known_finding_hits': self.known_hits,
        }
        if self.exhaustive is not None:
            cov['exhaustive'] = bool(self.exhaustive)
        cov.update(self.extra)
        ev = {
            'property_id': self.pid,
            'tier': self.tier,
            'seed': int(self.seed),
            'level': 'model_checking',
            'coverage': cov,
            'assumptions': self.assumptions,
            'wall_s': round(time.time() - self.t0, 2),
            'violations': len(self.violations),
        }
        os.makedirs(EVID_DIR, exist_ok=True)
        with open(os.path.join(EVID_DIR, self.pid + '.json'), 'w') as f:
            json.dump(ev, f, indent=1, default=str)
            f.write('\n')
        return ev

    def cleanup(self):
        shutil.rmtree(self.tmp, ignore_errors=True)


def real_code_failure(ex):
    """an exception that came out of the code under test (some frame of its traceback lies in the repository): a text
    describing it; None for exceptions of the harness itself"""
    tb, where = ex.__traceback__, None
    root = os.path.join(os.path.realpath(REPO), '')
    while tb is not None:
        fn = os.path.realpath(tb.tb_frame.f_code.co_filename)
        if fn.startswith(root):
            where = (os.path.relpath(fn, root), tb.tb_lineno)
        tb = tb.tb_next
    if where is None:
        return None
    return 'the code under test raised %s at %s:%d: %s' % (type(ex).__name__, where[0], where[1], str(ex)[:160])


def guarded(shape):
    """decorator for per-case replay functions: an exception that escapes from the code under test while a case of the
    family is replayed (the driver did not expect one there - on the unchanged tree none occurs) becomes the problem
    text of that case, shaped like the function's normal result by `shape(text)`; harness errors still propagate"""
    def deco(fn):
        import functools

        @functools.wraps(fn)
        def wrapped(job):
            try:
                return fn(job)
            except Exception as ex:          # noqa
                msg = real_code_failure(ex)
                if msg is None:
                    raise
                return shape(msg)
        return wrapped
    return deco


def pmap(fn, items, procs=16, chunk=None):
    """Run fn over items in forked worker processes (real-code replays); order preserved."""
    items = list(items)
    if len(items) < 64 or procs <= 1:
        return [fn(x) for x in items]
    import multiprocessing as mp
    if chunk is None:
        chunk = max(1, min(500, len(items) // (procs * 4)))
    with mp.get_context('fork').Pool(procs) as pool:
        return pool.map(fn, items, chunksize=chunk)


def _load_known(pid):
    path = os.path.join(VERIF, 'known_findings.json')
    if not os.path.exists(path):
        return []
    with open(path) as f:
        data = json.load(f)
    return [dict(k) for k in data.get('known', []) if k['property'] == pid]


def main():
    if os.environ.get('PYTHONHASHSEED') != '0':
        # the code under test iterates over sets of strings in places; a fixed hash seed makes every run and every
        # replay visit them in the same order
        os.environ['PYTHONHASHSEED'] = '0'
        os.execv(sys.executable, [sys.executable, '-B'] + sys.argv)
    ap = argparse.ArgumentParser()
    ap.add_argument('pid')
    ap.add_argument('--tier', default=os.environ.get('VERIF_TIER', 'quick'), choices=['quick', 'thorough'])
    ap.add_argument('--replay')
    a = ap.parse_args()
    pid = a.pid.upper()
    try:
        seed = int(os.environ.get('VERIF_SEED', '20260926'))
    except ValueError:
        seed = 20260926
    ctx = Ctx(pid, a.tier, seed)
    rc = 0
    try:
        mod = importlib.import_module('drivers.' + pid.lower())
        if a.replay:
            with open(a.replay) as f:
                rep = json.load(f)
            bad = mod.replay(ctx, rep['case'])
            if bad:
                print('VIOLATION property=%s replay=%s' % (pid, a.replay))
                print('  what: %s' % bad)
                rc = 1
            else:
                print('replay: property %s holds on this case' % pid)
        else:
            mod.run(ctx)
            ev = ctx.finish()
            rc = 1 if ctx.violations else 0
            print('%s %s: states=%d transitions=%d impl_cases=%d violations=%d known=%s drift=%d wall=%.1fs' % (
                pid, a.tier, ctx.states, ctx.transitions, ctx.traces, len(ctx.violations),
                sum(ctx.known_hits.values()), len(ctx.drift), ev['wall_s']))
    except Machinery as e:
        print('MACHINERY-FAILURE property=%s %s' % (pid, e))
        rc = 2
    except Exception:
        traceback.print_exc()
        print('MACHINERY-FAILURE property=%s driver crashed' % pid)
        rc = 2
    finally:
        ctx.cleanup()
    sys.exit(rc)


if __name__ == '__main__':
    main()
