"""TElement navigation (growth item beyond the listed properties; run as part of the C05 check, DRIFT only).

specs/llparser/TreeNav.tla  A-spec (Pre / Post orders, Get, Path2) + I-spec of _iter_children (explicit stack);
                            TLC: Refines, StackBound, OutIsPrefix, Terminates on every tree of the bounded family
Binding (spec -> code): every tree TLC emits is built from real TElement objects; find_all / iter_all / find_first /
get / get_path_elem / get_path_val are compared with what the spec says.
"""
from vcheck import Machinery, pmap

NAMES = '{"a", "b"}'


def _cfg(spec, wtop, win, props=True, live=True):
    return ('SPECIFICATION %s\nCHECK_DEADLOCK FALSE\nCONSTANTS\n  Names = %s\n  Keys = %s\n  WTop = %d\n  WIn = %d\n' % (
        spec, NAMES, NAMES, wtop, win)
        + ('INVARIANT Refines\nINVARIANT StackBound\nINVARIANT OutIsPrefix\n' if props else '')
        + ('PROPERTY Terminates\n' if props and live else ''))


def _build(node, path, index):
    """spec node -> TElement (every element registered under its path)"""
    from ak.llparser import TElement, SrcPos
    pos = SrcPos('t', 1, 1)
    kind = node['kind']
    if kind == 'plain':
        return 'p'
    if kind == 'leaf':
        e = TElement(node['n'], None if node['none'] else 'x', start_pos=pos, end_pos=pos)
    elif kind == 'list':
        items = [_build(c, path + (i + 1,), index) for i, c in enumerate(node['k'])]
        e = TElement(node['n'], items, start_pos=pos, end_pos=pos)
    else:
        d = {}
        for i, (k, c) in enumerate(zip(node['keys'], node['k'])):
            d[k] = _build(c, path + (2 * (i + 1),), index)       # children list of a dict: k1, v1, k2, v2, ...
        e = TElement(node['n'], d, start_pos=pos, end_pos=pos)
    index[id(e)] = path
    return e


def check_tree(case):
    from ak.llparser import TElement
    index = {}
    root = _build(case['tree'], (1,), index)

    def paths(elems):
        return [list(index.get(id(e), ('?',))) for e in elems]
    probs = []
    pre, post = case['pre'], case['post']
    if paths(root.find_all(exclude_root=False)) != pre:
        probs.append('find_all(exclude_root=False) order %s, spec %s' % (paths(root.find_all(exclude_root=False)), pre))
    if paths(root.find_all(exclude_root=False, bottom_first=True)) != post:
        probs.append('bottom_first order %s, spec %s' % (paths(root.find_all(exclude_root=False, bottom_first=True)), post))
    if paths(root.find_all()) != pre[1:]:
        probs.append('find_all() %s, spec %s' % (paths(root.find_all()), pre[1:]))
    for fa in case['fa']:
        n = fa['name']
        for got, want, what in ((root.find_all(n), fa['top'], 'find_all(%r)' % n),
                                (root.find_all([n], exclude_root=False, bottom_first=True), fa['bot'], 'find_all([%r], root, bottom)' % n),
                                (list(root.iter_all(lambda e, n=n: e.name == n)), fa['top'], 'iter_all(callable %r)' % n)):
            if paths(got) != want:
                probs.append('%s = %s, spec %s' % (what, paths(got), want))
        ff = root.find_first(n)
        if (paths([ff]) if ff is not None else []) != fa['top'][:1]:
            probs.append('find_first(%r) = %s, spec %s' % (n, ff, fa['top'][:1]))
    kind = case['tree']['kind']

    def child(i):
        v = root.value
        return v[i - 1] if kind == 'list' else list(v.values())[i - 1]
    sentinel = object()
    for g in case['get']:
        r = g['r']
        try:
            got = root.get(g['name'], sentinel)
            obs = ['none'] if got is sentinel else (['elem'] if isinstance(got, TElement) else ['plain'])
            if r[0] in ('elem', 'plain') and got is not sentinel and child(r[1]) is not got:
                obs = ['other-object']
        except ValueError:
            obs = ['error']
        if obs[0] != r[0]:
            probs.append('get(%r) -> %s, spec %s' % (g['name'], obs, r))
    for pt in case['path']:
        r = pt['r']
        for path in ([pt['a'], pt['b']], pt['a'] + '.' + pt['b']):
            try:
                got = root.get_path_elem(path, sentinel)
                if got is sentinel:
                    obs = 'default'
                elif got is None:
                    obs = 'none'
                elif isinstance(got, TElement):
                    obs = 'elem'
                else:
                    obs = 'plain'
            except ValueError:
                obs = 'error'
            if obs != r[0]:
                probs.append('get_path_elem(%r) -> %s, spec %s' % (path, obs, r))
            elif obs in ('elem', 'plain'):
                c1 = child(r[1])
                v = c1.value
                want = v[r[2] - 1] if isinstance(v, list) else list(v.values())[r[2] - 1]
                if want is not got:
                    probs.append('get_path_elem(%r) returns another object than entry %s' % (path, r[1:]))
        # get_path_val: the value of the element, default when there is no element or its value is None
        if r[0] == 'elem':
            c1 = child(r[1])
            v = c1.value
            tgt = v[r[2] - 1] if isinstance(v, list) else list(v.values())[r[2] - 1]
            want = sentinel if tgt.value is None else tgt.value
            try:
                if root.get_path_val([pt['a'], pt['b']], sentinel) is not want:
                    probs.append('get_path_val(%s.%s) is not the value of the element' % (pt['a'], pt['b']))
            except Exception as e:
                probs.append('get_path_val raised %s' % type(e).__name__)
    return probs[:3]


def run(ctx):
    """model check the I-spec against the A-spec, then replay every tree on real TElement objects"""
    # liveness (Terminates) is checked on the small family in both tiers (TLC checks it on one thread: the larger family
    # took more than 50 minutes on a busy machine); the thorough tier adds the safety properties of the larger family
    # the larger family (root width 2, inner width 2) is not used any more: TLC enumerates its initial states (all trees)
    # on one thread, which took more than 45 minutes
    ctx.tlc('llparser/TreeNav.tla', _cfg('Spec', 2, 1), workers=16, timeout=3000, heap='12g')
    wtop, win = 2, 1
    r = ctx.tlc('llparser/TreeNav.tla', _cfg('BSpec', 2, 1, props=False), workers=16, timeout=3000, heap='12g')
    cases = [c for c in r.printed if isinstance(c, dict)]
    if len(cases) < 1000:
        raise Machinery('TreeNav emitted %d trees' % len(cases))
    res = pmap(check_tree, cases)
    bad = 0
    for c, probs in zip(cases, res):
        if probs:
            bad += 1
            if bad <= 3:
                ctx.note_drift('TreeNav: tree %s: %s' % (c['tree'], probs[0]))
    # negative self-test: a corrupted expectation must be noticed
    wrong = dict(cases[-1], pre=list(reversed(cases[-1]['pre'])) + [[9]])
    ctx.selftest(bool(check_tree(wrong)), 'TreeNav replay accepted a corrupted order')
    ctx.extra['treenav'] = {'trees': len(cases), 'trees_with_differences': bad,
                            'model_checked_family': 'root width %d, inner width %d, 2 names, depth 2' % (wtop, win)}
