"""C12 - tables are rectangular, aligned, width-bounded and account for every record.

specs/ppobj/PPTableCases.tla  builder of abstract tables
specs/ppobj/PPTable.tla       layout acceptor (one action per printed line)
The driver materialises every abstract table as a real PPTable with values of mixed types, prints it without
colours and lets TLC accept or reject the lines.
"""
import json
import os
import re

from vcheck import Machinery

ENUM_VALS = [0, 1, 10, 7, 55555]    # 7 and 55555 are not declared enum values (55555 is longer than every declared one)
ENUM_NAMES = {0: 'Zero', 1: 'One', 10: 'Ten'}
ENUM_NAMES_2 = {0: 'Nil', 1: 'Uno', 10: 'Deca'}       # a second enum type: other names for the same raw values


def _names_of(c):
    """the enum type of the field shown by column c (columns alternate between the two types)"""
    return ENUM_NAMES_2 if c % 2 else ENUM_NAMES


def cps(s):
    return [ord(c) for c in s]


def _plain_value(L, r, c):
    if L == 0:
        return ''
    k = (r * 3 + c) % 5
    if k == 0:
        return int('7' * L)
    if k == 1 and L == 4:
        return (None, True)[r % 2]
    if k == 2 and L == 3:
        return 1.5
    pool = 'a|+-. b'
    s = ''.join(pool[(i + r + 2 * c) % len(pool)] for i in range(L))
    return s.strip() and s or 'x' * L


def _enum_text(v, mod, names=ENUM_NAMES):
    if v in names:
        name, vl = names[v], 2
    else:
        name, vl = '<???>', max(2, len(str(v)))
    if mod == 'val':
        return str(v)
    if mod == 'name':
        return name
    return str(v).rjust(vl) + ' ' + name


_CENTRED = []


def _centred_type():
    if not _CENTRED:
        from ak import ppobj

        class Centred(ppobj.FieldType):
            def make_desired_cell_ch_chunks(self, value, fmt_modifier, field_palette):
                return [field_palette.text(str(value))], ppobj.ALIGN_CENTER
        _CENTRED.append(Centred)
    return _CENTRED[0]()


def build(case):
    """abstract table -> (kwargs for PPTable, judge case without lines)"""
    cols, recs, opts = case['cols'], case['recs'], case['opts']
    n = len(cols)
    fields = ['f%d' % (i + 1) for i in range(n)]
    fmt_cols, ftypes = [], {}
    from ak.ppobj import PPEnumFieldType
    records, cells, keys = [], [], []
    # a column selection may show one field several times: an enum column repeats the field of the nearest earlier
    # column of the same kind (same values, possibly another width)
    same = {}
    for c, col in enumerate(cols):
        if col['kind'] != 'plain':
            prev = [c0 for c0 in range(c) if cols[c0]['kind'] == col['kind']]
            if prev:
                same[c] = same.get(prev[-1], prev[-1])
    for c, c0 in same.items():
        fields[c] = fields[c0]
    for r, rec in enumerate(recs):
        vals, texts, key = [], [], []
        for c, col in enumerate(cols):
            x = rec[same.get(c, c)]
            if col['kind'] != 'plain':
                v = ENUM_VALS[x % 5]
                mod = col['kind'].split('/')[1] if '/' in col['kind'] else None
                vals.append(v)
                texts.append(_enum_text(v, mod, _names_of(same.get(c, c))))
            elif col['brk']:
                vals.append(x)
                texts.append(str(x))
            else:
                v = _plain_value(x, r, c)
                vals.append(v)
                texts.append(str(v))
            if col['brk']:
                key.append(vals[-1])
        # record = one value per distinct field, in field order
        rv = [v for c, v in enumerate(vals) if c not in same]
        records.append(tuple(rv) if r % 2 else list(rv))
        cells.append([cps(t) for t in texts])
        keys.append(key)
    for c, col in enumerate(cols):
        s = fields[c]
        if col['kind'] != 'plain':
            nm = _names_of(same.get(c, c))
            ftypes[fields[c]] = PPEnumFieldType({0: nm[0], 1: (nm[1], 'name_good'), 10: (nm[10], 'name_warn')})
            if '/' in col['kind']:
                s += '/' + col['kind'].split('/')[1]
        elif not col['brk'] and (c + n + len(recs)) % 3 == 2:
            # a user-defined field type that centres its values (the third alignment fit_to_width supports; nothing
            # in the library itself uses it) - the acceptor allows the padding on either side
            ftypes[fields[c]] = _centred_type()
        if col['brk']:
            s += '!'
        s += ':%d' % col['min'] if col['min'] == col['max'] else ':%d-%d' % (col['min'], col['max'])
        fmt_cols.append(s)
    fmt = ','.join(fmt_cols)
    lim = opts['limits']
    if lim[0] == -1:
        fmt += ';*'
    elif lim[0] != 99:
        fmt += ';%d:%d' % (lim[0], lim[1])
    hdr = {0: None, 3: 'Hdr', 40: 'H|+' * 13 + 'H'}[opts['hdr']]
    ftr = {0: None, 3: 'End', 40: 'F-+' * 13 + 'F'}[opts['ftr']]
    ufields = [f for c, f in enumerate(fields) if c not in same]
    kwargs = dict(fmt=fmt, fields=ufields, fields_types=ftypes or None, header=hdr, footer=ftr)
    limits = [-1, -1] if lim[0] == -1 else ([30, 20] if lim[0] == 99 else list(lim))
    jc = {'cols': [{'min': c['min'], 'max': c['max'], 'brk': c['brk']} for c in cols],
          'titles': [cps(f) for f in fields], 'cells': cells, 'keys': keys, 'limits': limits,
          'hdr': cps(hdr or ''), 'ftr': cps(ftr if ftr is not None else 'Total %d records' % len(records))}
    return records, kwargs, jc


def _other_table():
    """a table with break lines and skipped records, wider than the tables of the family"""
    from ak.ppobj import PPTable
    recs = [(i, 'group %d' % (i // 3), 'x' * 30) for i in range(30)]
    return PPTable(recs, fmt='n:4,g!:10,t:35;2:2', fields=['n', 'g', 't'])


def render(case):
    from ak.ppobj import PPTable
    records, kwargs, jc = build(case)
    if kwargs['footer'] is not None and len(records) >= 2 and (len(records) + len(kwargs['fmt'])) % 4 == 2:
        # the table is created over a list that gets its last record afterwards (t.records is the caller's list); with
        # an explicit footer nothing in the printed table is a snapshot of the construction time
        live = list(records[:-1])
        t = PPTable(live, **kwargs)
        live.append(records[-1])
    else:
        t = PPTable(records, **kwargs)
    if (len(records) + len(kwargs['fmt'])) % 3 == 0:
        # the same table built from a format object (another table's .fmt), as ak/mcaller_sql.py does
        src = t.fmt
        t = PPTable(records, fmt_obj=src, header=kwargs['header'], footer=kwargs['footer'])
        # a sibling built from the same format object with its own limits and without the first column: the format
        # object and the tables built from it earlier must not change
        PPTable(records, fmt_obj=src, limits=(0, 1), skip_columns=[kwargs['fields'][0]])
    if (len(records) + len(kwargs['fmt'])) % 3 == 1:
        # printed side by side with another table: the two renderings are consumed in alternation
        from ak.color import CHText
        mine, other = iter(t.ch_text(no_color=True)), iter(_other_table().ch_text(no_color=True))
        got = []
        while True:
            try:
                got.append(next(mine))          # this table is started first
            except StopIteration:
                break
            next(other, None)
        text = '\n'.join(CHText(ln).plain_text() for ln in got)
    else:
        text = t.ch_text(no_color=True).plain_text()
    jc['lines'] = [cps(ln) for ln in text.split('\n')]
    return jc, kwargs['fmt'], text


def judge(ctx, jcases):
    verd = {}
    CH = 5000
    for off in range(0, len(jcases), CH):
        part = jcases[off:off + CH]
        path = os.path.join(ctx.tmp, 'c12_%d.ndjson' % off)
        with open(path, 'w') as f:
            for c in part:
                f.write(json.dumps(c) + '\n')
        r = ctx.tlc('ppobj/PPTable.tla', 'SPECIFICATION Spec\nCHECK_DEADLOCK FALSE\n', env={'CASES': path}, workers=16,
                    timeout=3600, heap='12g')
        os.unlink(path)
        for ln in r.raw_printed:
            m = re.match(r'<<"(ACCEPT|REJECT)", (\d+)(?:, "([^"]*)", (\d+))?>>', ln)
            if m:
                verd[off + int(m.group(2))] = (m.group(1), m.group(3), m.group(4))
    if len(verd) != len(jcases):
        raise Machinery('PPTable judge gave %d verdicts for %d cases' % (len(verd), len(jcases)))
    return verd


def _synthetic():
    def L(*lines):
        return [cps(x) for x in lines]
    base = {'cols': [{'min': 2, 'max': 5, 'brk': False}, {'min': 1, 'max': 1, 'brk': True}],
            'titles': [cps('f1'), cps('f2')], 'cells': [[cps('abcdefg'), cps('0')], [cps('x'), cps('1')]], 'keys': [[0], [1]],
            'limits': [30, 20], 'hdr': cps(''), 'ftr': cps('Total 2 records')}
    good = dict(base, lines=L('+-----+-+', '|f1   |.|', '+-----+-+', '|ab...|0|', '|       |', '|    x|1|', '+-----+-+', 'Total ...'))
    bad = [dict(base, lines=L('+-----+-+', '|f1   |.|', '+-----+-+', '|ab...|0|', '|    x|1|', '+-----+-+', 'Total ...')),       # break line missing
           dict(base, lines=L('+-----+-+', '|f1   |.|', '+-----+-+', '|abcde|0|', '|       |', '|    x|1|', '+-----+-+', 'Total ...')),  # no dots
           dict(base, lines=L('+------+-+', '|f1    |.|', '+------+-+', '|abc...|0|', '|        |', '|     x|1|', '+------+-+', 'Total 2...')),  # too wide
           dict(base, lines=L('+-----+-+', '|f1   |.|', '+-----+-+', '|ab...|0|', '|       |', '|   x |1||', '+-----+-+', 'Total ...'))]   # ragged
    return good, bad


def run(ctx):
    ctx.assumptions += ['cell values without newlines/tabs; one-line titles; at least one column',
                        'desired cell text: str(value) for plain columns, the documented val / name / "val name" forms for '
                        'enum columns (computed by the driver, not by the library)']
    r = ctx.tlc('ppobj/PPTableCases.tla', 'SPECIFICATION Spec\nCHECK_DEADLOCK FALSE\nCONSTANTS\n  MaxCols = 1\n  MaxRecs = %d\n'
                '  Emit = TRUE\nINVARIANT WellFormed\n' % (1 if ctx.quick else 2), workers=8, timeout=3000, heap='12g')
    cases = [c for c in r.printed if isinstance(c, dict)]
    n_exh = len(cases)
    if n_exh < 500:
        raise Machinery('PPTableCases emitted %d tables' % n_exh)
    r = ctx.tlc('ppobj/PPTableCases.tla', 'SPECIFICATION Spec\nCHECK_DEADLOCK FALSE\nCONSTANTS\n  MaxCols = 3\n  MaxRecs = 7\n'
                '  Emit = TRUE\n', workers=8, simulate=(6000 if ctx.quick else 120000) // 8, depth=16, timeout=3000)
    sim = [c for c in r.printed if isinstance(c, dict)]
    cases += sim
    # directed: two and three narrow plain columns of fixed width 0..2 whose values (1-2 characters from the pool with the
    # border characters: a lone '|', '+', '-') fill their cells completely or are cut, another column following
    directed = []
    for w0 in (0, 1, 2):
        for w1 in (0, 1, 2):
            for L0 in (0, 1, 2):
                for L1 in (1, 2):
                    cols2 = [{'kind': 'plain', 'brk': False, 'min': w0, 'max': w0}, {'kind': 'plain', 'brk': False, 'min': w1, 'max': w1}]
                    directed.append({'cols': cols2, 'recs': [[L0, L1]] * 8, 'opts': {'limits': [99, 99], 'hdr': 0, 'ftr': 0}})
                    directed.append({'cols': cols2 + [dict(cols2[0])], 'recs': [[L1, L0, L0 or 1]] * 8,
                                     'opts': {'limits': [99, 99], 'hdr': 0, 'ftr': 0}})
    cases += directed
    ctx.extra['tables_directed_narrow_columns'] = len(directed)
    jcases, meta = [], []
    for c in cases:
        try:
            jc, fmt, text = render(c)
        except Exception as e:
            ctx.violation({'table': c}, 'printing the table raised %s: %s' % (type(e).__name__, str(e)[:100]))
            continue
        jcases.append(jc)
        meta.append((c, fmt, text))
    good, bad = _synthetic()
    allc = jcases + [good] + bad
    verd = judge(ctx, allc)
    n = len(jcases)
    ctx.selftest(verd[n + 1][0] == 'ACCEPT' and all(verd[n + 1 + k][0] == 'REJECT' for k in range(1, len(bad) + 1)),
                 'PPTable self-test: %s' % [verd[n + k] for k in range(1, len(bad) + 2)])
    for i in range(1, n + 1):
        if verd[i][0] == 'REJECT':
            c, fmt, text = meta[i - 1]
            ctx.violation({'table': c}, 'table fmt=%r rejected by the layout acceptor: %s at line %s\n%s' % (
                fmt, verd[i][1], verd[i][2], text[:600]))
    ctx.traces = n
    ctx.exhaustive = False
    ctx.extra['tables_exhaustive_one_column'] = n_exh
    ctx.extra['tables_simulated'] = len(sim)
    ctx.extra['tables_with_skipped_records'] = sum(1 for m in meta if 'records skipped' in m[2])
    for i in (0, n_exh // 2, n - 1):
        ctx.sample({'fmt': meta[i][1], 'printed': meta[i][2].split('\n')[:8]})


def replay(ctx, case):
    try:
        jc, fmt, text = render(case['table'])
    except Exception as e:
        return 'raised %s' % type(e).__name__
    verd = judge(ctx, [jc])
    return None if verd[1][0] == 'ACCEPT' else '%s at line %s\n%s' % (verd[1][1], verd[1][2], text)
