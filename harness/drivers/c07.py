"""C07 - component builds are reported at the first parent build that ships them.

specs/ghist/GHistComp.tla  component + parent history builder with monotone pins, A-spec IncludedAt; TLC:
                           IncludedSomewhere, NeverTwiceOnAPath
specs/ghist/RepoOrder.tla  all dependency graphs between repositories, topological order / cycles
"""
import itertools
import json
import os

import ghmock
from vcheck import Machinery, pmap

_ENV = {}


def _env():
    if _ENV:
        return _ENV
    from ak.ghist import ProjectRepo, ReposCollection, RBuild
    import logging
    logging.getLogger('ak.ghist').setLevel(logging.ERROR)       # "references unknown version" warnings are expected in some families

    class Lib(ProjectRepo):
        pass

    class LibV(ProjectRepo):
        """component built from master: its build tags do not carry major.minor, the VERSION file does"""
        _SAVED_BUILD_NUM_SOURCES = ['VERSION']

        def _read_saved_build_num_from_file(self, blob, path):
            from ak.ghist import BuildNumData
            major, minor = [int(x) for x in blob.data_stream.read().decode().strip().split('.')]
            return BuildNumData(major, minor, None)

    class LibS(LibV):
        """component whose builds are detected by a bump of the number saved in its VERSION file (no build tags)"""
        def make_builds_detector(self):
            from ak.ghist import RepoBuildsBySavedBuildNumDetector
            return RepoBuildsBySavedBuildNumDetector(self)

        def _read_saved_build_num_from_file(self, blob, path):
            from ak.ghist import BuildNumData
            major, minor, patch = [int(x) for x in blob.data_stream.read().decode().strip().split('.')]
            return BuildNumData(major, minor, patch)

    class App(ProjectRepo):
        _COMPONENTS_VERSIONS_LOCATIONS = {'lib': 'DEPENDS'}

        def read_components_from_file(self, v_file_path, blob):
            d = json.load(blob.data_stream)
            return {k: [int(x) for x in v.split('.')] for k, v in d.items()}
    class App2(App):
        """parent that pins two components"""
        _COMPONENTS_VERSIONS_LOCATIONS = {'lib': 'DEPENDS', 'lib2': 'DEPENDS2'}      # each in its own file
    _ENV.update(App2=App2)
    _ENV.update(Lib=Lib, LibV=LibV, LibS=LibS, App=App, ReposCollection=ReposCollection, RBuild=RBuild, ProjectRepo=ProjectRepo)
    return _ENV


def _tag(c, second=False, vfile=False, zero=False):
    return ('build_%d_master_success' if vfile else ('build_%d_release_0_9_success' if zero else 'build_%d_release_1_0_success')) % (
        100 + 2 * c + (1 if second else 0))


def observe(case):
    e = _env()
    ck = case['ck']
    # vfile: the component's version 1.<minor> is kept in its VERSION file and changes from commit to commit
    vfile = case.get('vfile') == 1
    saved = case.get('vfile') == 2        # builds = bumps of the saved number: 1.0.<100 + 2c> at a build commit c,
    # zero: the component's release line is 0.9 (tags build_<n>_release_0_9_success, pins 0.9.<n>): a major version 0
    zero = bool(case.get('zero')) and not vfile and not saved
    cmaj = 0 if zero else 1
    minor = (lambda c: c) if vfile else ((lambda c: 9) if zero else (lambda c: 0))     # the newest number of the parents otherwise
    if saved:
        num = {}
        for c in range(1, ck + 1):
            num[c] = 100 + 2 * c if case['ctagged'][c - 1] else max(num[p] for p in case['cparents'][c - 1])
    lib_commits = {c: (sorted(case['cparents'][c - 1], reverse=(c % 2 == 0)), ('BUG-7 lib %d' % c) if case['cmatch'][c - 1] else 'lib other %d' % c,
                       {'VERSION': '1.%d\n' % minor(c)} if vfile else ({'VERSION': '1.0.%d\n' % num[c]} if saved else {}))
                   for c in range(1, ck + 1)}
    lib_tags = {_tag(c, False, vfile, zero): c for c in range(1, ck + 1) if case['ctagged'][c - 1] >= 1}
    lib_tags.update({_tag(c, True, vfile, zero): c for c in range(1, ck + 1) if case['ctagged'][c - 1] == 2})
    if saved:
        lib_tags = {}
    # days: the component has a second, older branch (head = a commit that master contains) and commits that are two days
    # apart; every parent commit is made ten minutes (times its number) after the component commit it pins - all inside the
    # cut-off windows (30 days for branches, one day before the oldest report-related component build for parents)
    days = bool(case.get('days')) and ck >= 2
    lib_heads, lib_times, app_times = {'master': ck}, None, None
    if days:
        lib_heads['release/0.5'] = (ck + 1) // 2 if case['linear'] else 1
        lib_times = {c: c * 2 * 86400 for c in range(1, ck + 1)}
        app_times = {c: case['pin'][c - 1] * 2 * 86400 + 600 * c for c in range(1, case['h']['n'] + 1)}
    lib = ghmock.Repo('lib', lib_commits, lib_tags, lib_heads, time_step=600, times=lib_times)
    h = case['h']
    # second component: the same history under another name, pinned by every parent commit at the highest pin that
    # occurs for the first component (a pin that never moves)
    two = bool(case.get('two')) and not vfile and not saved
    swap = two and bool(case.get('swap'))
    mc, oc = ('lib2', 'lib') if swap else ('lib', 'lib2')
    top = max(range(h['n']), key=lambda k: (case['pin'][k], case['pin2'][k]))
    pin_lib2 = '%d.%d.%d' % (cmaj, 9 if zero else 0, 100 + 2 * case['pin'][top] + (1 if case['pin2'][top] else 0))
    app_commits, app_tags = {}, {}
    for c in range(1, h['n'] + 1):
        ps = sorted(h['parents'][c - 1], reverse=(c % 2 == 1))
        files = {'DEPENDS': json.dumps({'lib': '%d.%d.%d' % (cmaj, minor(case['pin'][c - 1]), 100 + 2 * case['pin'][c - 1] + (1 if case['pin2'][c - 1] else 0))})}
        if two:
            # swap: the component under observation is the one named lib2 (pinned in the second file), the component
            # whose pin never moves is lib - whichever file is read last, one of the two variants observes the other one
            moving = json.loads(files['DEPENDS'])['lib']
            files = {'DEPENDS': json.dumps({'lib': pin_lib2 if swap else moving}),
                     'DEPENDS2': json.dumps({'lib2': moving if swap else pin_lib2})}
        app_commits[c] = (ps, ('BUG-7 app %d' % c) if h['match'][c - 1] else 'app other %d' % c, files)
        if h['tagged'][c - 1]:
            app_tags[_tag(c)] = c
            if case.get('twolines'):
                # the same parent commit was also built for a later release line, with a SMALLER build counter: its build
                # number stays the smallest one, 1.0.<n>
                app_tags['build_%d_release_1_1_success' % c] = c
    app = ghmock.Repo('app', app_commits, app_tags, dict(h['head']), time_step=600, times=app_times)
    order = case.get('supply', 0)
    repos = [(mc, e['LibS' if saved else ('LibV' if vfile else 'Lib')](mc, lib, 'origin')),
             ('app', e['App2' if two else 'App']('app', app, 'origin'))]
    if two:
        lib2 = ghmock.Repo('lib2', lib_commits, lib_tags, lib_heads, time_step=600, times=lib_times)
        repos.insert(1 if order else 0, (oc, e['Lib'](oc, lib2, 'origin')))
    if order:
        repos.reverse()
    coll = e['ReposCollection'](dict(repos))
    if coll.sorted_repos[-1] != 'app' or sorted(coll.sorted_repos) != sorted(r[0] for r in repos):
        return 'repositories analysed in the order %s' % coll.sorted_repos
    data = dict(coll.make_reports_data('BUG-7'))
    libg, appg = data[mc], data['app']
    # parent builds that are reported, per branch
    reported = {}
    for rb in appg.branches:
        s = set()
        for rbuild in rb.rbuilds.values():
            if rbuild.build_type == e['RBuild'].FAKE_NOT_MERGED:
                continue
            s.add(rbuild.rcommit.commit.intid)
        reported[rb.branch_name] = s
    real_incl = {}
    for rb in libg.branches:
        for rbuild in rb.rbuilds.values():
            if rbuild.build_type != e['RBuild'].NORMAL or rbuild.build_num.is_fake_not_built():
                continue
            cb = rbuild.rcommit.commit.intid
            if saved and not case['ctagged'][cb - 1]:
                continue          # an unbuilt head carries the saved number of an earlier build; it is not a build
            items = set()
            for repo_id, br, bn in rbuild.included_at:
                if repo_id != 'app':
                    return 'included_at names repository %r' % repo_id
                B = h['head'][str(br)] if bn.is_fake_not_built() else (bn.patch - 100) // 2
                items.add((str(br), B))
                if len([1 for x in rbuild.included_at if str(x[1]) == str(br) and x[2].as_tuple() == bn.as_tuple()]) > 1:
                    return 'component build %d is recorded twice at %s %s' % (cb, br, bn)
            real_incl[cb] = items
    want = case['incl']
    if isinstance(want, list):
        want = {str(i + 1): v for i, v in enumerate(want)}
    ctagged = [c + 1 for c in range(ck) if case['ctagged'][c] >= 1]
    if isinstance(case['incl'], list) and len(case['incl']) != len(ctagged):
        return 'machinery: incl does not cover the tagged component commits'
    if isinstance(case['incl'], list):
        want = {str(c): v for c, v in zip(ctagged, case['incl'])} if ctagged != list(range(1, len(ctagged) + 1)) else want
    want = {int(k): set((x[0], x[1]) for x in v) for k, v in want.items()}
    rb = set(case['rb'])
    if case['linear'] and not days and set(real_incl) != rb:     # with a second component branch more builds are report-related
        return 'report-related component builds %s, expected %s' % (sorted(real_incl), sorted(rb))
    if not set(real_incl) <= set(want):
        return 'report-related component builds %s are not all tagged commits %s' % (sorted(real_incl), sorted(want))
    for cb in sorted(real_incl):
        if days and cb <= lib_heads['release/0.5'] and any(p > lib_heads['release/0.5'] for p in case['pin']):
            # a build of the component's older branch while the parent pins builds of the component's master: whether a
            # master build "contains" the builds of the older branch it was forked from is not fixed by the property
            # (the code keeps the branches apart) - not judged
            continue
        if real_incl[cb] != want[cb]:
            return ('component build %d (tag %s) is recorded as included at %s, the first parent builds that ship it are %s'
                    % (cb, _tag(cb, False, vfile, zero), sorted(real_incl[cb]), sorted(want[cb])))
        for b, B in want[cb]:
            if B not in reported.get(b, set()):
                return 'parent build %d of branch %s ships component build %d but is not reported' % (B, b, cb)
    return None


def _job(case):
    import signal

    def al(*a):
        raise TimeoutError()
    signal.signal(signal.SIGALRM, al)
    signal.alarm(60)
    try:
        return observe(case)
    except TimeoutError:
        return 'make_reports_data does not return (60 s)'
    except Exception as ex:
        return 'raised %s: %s' % (type(ex).__name__, str(ex)[:200])
    finally:
        signal.alarm(0)


def _cfg(mcomp, mc, mt, mb, emit, invs=True, diamond=False, sideways=False, linear=False):
    return ('SPECIFICATION Spec\nCHECK_DEADLOCK FALSE\nCONSTANTS\n  MaxComp = %d\n  MaxCommits = %d\n  MaxTags = %d\n  MaxBranches = %d\n'
            '  Emit = %s\n  Diamond = %s\n  Sideways = %s\n  LinearParent = %s\n' % (
                mcomp, mc, mt, mb, 'TRUE' if emit else 'FALSE', 'TRUE' if diamond else 'FALSE', 'TRUE' if sideways else 'FALSE',
                'TRUE' if linear else 'FALSE')
            + ('INVARIANT IncludedSomewhere\nINVARIANT NeverTwiceOnAPath\n' if invs else ''))


def repo_order_case(case):
    """spec -> code for RepoOrder: every supply order of the repositories"""
    e = _env()
    deps = case['deps']
    if isinstance(deps, dict):
        deps = [deps[str(i + 1)] for i in range(len(deps))]
    n = len(deps)
    names = ['r%d' % (i + 1) for i in range(n)]
    classes = []
    for i in range(n):
        classes.append(type('Repo%d' % i, (e['ProjectRepo'],), {'_COMPONENTS_VERSIONS_LOCATIONS': {names[d - 1]: 'DEPENDS' for d in deps[i]}}))
    dummy = ghmock.Repo('x', {1: ([], 'm', {})}, {}, {'master': 1})
    for perm in itertools.permutations(range(n)):
        repos = {names[i]: classes[i](names[i], dummy, 'origin') for i in perm}
        try:
            order = e['ReposCollection'](repos).sorted_repos
            outcome = 'ok'
        except ValueError:
            outcome = 'ValueError'
        except Exception as ex:
            return 'dependencies %s supplied as %s: raised %s' % (deps, [names[i] for i in perm], type(ex).__name__)
        if case['cyclic']:
            if outcome != 'ValueError':
                return 'cyclic dependencies %s supplied as %s were accepted: %s' % (deps, [names[i] for i in perm], order)
            continue
        if outcome != 'ok':
            return 'acyclic dependencies %s supplied as %s rejected with ValueError' % (deps, [names[i] for i in perm])
        pos = {r: k for k, r in enumerate(order)}
        if sorted(order) != sorted(names) or any(pos[names[d - 1]] > pos[names[i]] for i in range(n) for d in deps[i]):
            return 'dependencies %s supplied as %s: order %s does not put components first' % (deps, [names[i] for i in perm], order)
    return None


def run(ctx):
    ctx.assumptions += ['single-branch component whose history may contain parallel sub-branches and merges (for non-linear components the '
                        'report-related builds are taken from the component report itself); parent histories with merges and up to 2 (quick) / 3 branches whose heads '
                        'do not lie inside a lower-sorted branch (known finding F-C06 of C06 lives there); pins never decrease '
                        'along a path (the new pin contains the old one; in the sideways family of the diamond component only the build NUMBER does not decrease) and name existing component builds; all commit times within a few hours (inside the '
                        'cut-off windows), except in the `days` variant: the component has a second, older branch whose head master contains, '
                        'component commits are two days apart and every parent commit follows the component commit it pins by minutes '
                        '(builds of the older branch are judged only while no parent commit pins a build of the component master)',
                        'component versions: 1.0.<build> from tags build_<n>_release_1_0_success (or 0.9.<build> from build_<n>_release_0_9_success), or 1.<commit>.<build> from tags build_<n>_master_success plus a VERSION file that changes with every commit']
    ctx.tlc('ghist/GHistComp.tla', _cfg(2, 2, 2, 2, False) if ctx.quick else _cfg(2, 3, 2, 2, False), workers=16, timeout=3000)
    r = ctx.tlc('ghist/GHistComp.tla', _cfg(2, 2, 2, 2, True, invs=False) if ctx.quick else _cfg(2, 3, 2, 2, True, invs=False),
                workers=16, timeout=7200, heap='16g')
    cases = [c for c in r.printed if isinstance(c, dict)]
    if not ctx.quick:
        r = ctx.tlc('ghist/GHistComp.tla', _cfg(3, 2, 2, 2, True, invs=False), workers=16, timeout=7200, heap='16g')
        cases += [c for c in r.printed if isinstance(c, dict)]
    # component with two parallel sub-branches that are merged (diamond), parent of 2 commits on one branch
    r = ctx.tlc('ghist/GHistComp.tla', _cfg(4, 2, 2, 1, True, invs=False, diamond=True), workers=16, timeout=7200, heap='16g')
    dia = [c for c in r.printed if isinstance(c, dict)]
    if ctx.quick:
        dia = ctx.rnd.sample(dia, min(15000, len(dia)))
    ctx.extra['diamond_component_pairs'] = len(dia)
    cases += dia
    # the pinned version moves to a PARALLEL build of the diamond (a higher number that does not contain the old pin) and
    # on to the merge: what was shipped before the detour must not be recorded again (finding F-C07b); parent of 3 commits
    # (quick: one line of commits; thorough: any shape)
    r = ctx.tlc('ghist/GHistComp.tla', _cfg(4, 3, 3, 1, True, invs=False, diamond=True, sideways=True, linear=ctx.quick), workers=16,
                timeout=7200, heap='16g')
    side = [c for c in r.printed if isinstance(c, dict)]
    ctx.extra['sideways_pin_pairs'] = len(side)
    for c in side:
        c['sideways'] = True
    cases += side
    n_exh = len(cases)
    if n_exh < 1000:
        raise Machinery('GHistComp emitted %d cases' % n_exh)
    r = ctx.tlc('ghist/GHistComp.tla', _cfg(4, 7, 4, 3, True, invs=False), workers=8, simulate=(8000 if ctx.quick else 100000) // 8,
                depth=30, timeout=3000)
    sim = [c for c in r.printed if isinstance(c, dict)]
    cases += sim
    # larger components (5 commits: a merge that is neither a build nor the head becomes possible) for the variant whose
    # builds are bumps of the saved number
    r = ctx.tlc('ghist/GHistComp.tla', _cfg(5, 4, 2, 2, True, invs=False), workers=8, simulate=(6000 if ctx.quick else 60000) // 8,
                depth=30, timeout=3000)
    sim5 = [c for c in r.printed if isinstance(c, dict)]
    for c in sim5:
        c['prefer_saved'] = True
    cases += sim5
    ctx.extra['history_pairs_simulated_5_component_commits'] = len(sim5)
    for i, c in enumerate(cases):
        c['supply'] = i % 2
        c['days'] = (i // 64) % 2 if 'VERIF_C07_DAYS' not in os.environ else 1
        c['two'] = (i // 8) % 2           # the parent pins a second component as well
        c['swap'] = (i // 128) % 2        # ... and the two components change roles
        c['twolines'] = (i // 32) % 2     # tagged parent commits carry a second tag of release line 1.1 with a smaller counter
        c['zero'] = (i // 16) % 2         # the component's release line is 0.9 instead of 1.0 (tag-only components)
        c['vfile'] = (i // 2) % 2         # how the component's builds get their major.minor: tag text / VERSION file
        # third way: no tags, a build is a bump of the saved number (needs: one build per commit, roots are builds,
        # a head that is a plain merge is excluded: it would be an unbuilt head that carries the number of a build which
        # does not contain all its ancestors, and what the report must say then is not fixed by the property)
        roots_built = all(c['ctagged'][k] for k in range(c['ck']) if not c['cparents'][k])
        no_plain_merge = all(c['ctagged'][k] or len(c['cparents'][k]) <= 1 or k + 1 != c['ck'] for k in range(c['ck']))
        if ((i // 4) % 2 or c.get('prefer_saved')) and not c.get('sideways') and roots_built and no_plain_merge and all(x <= 1 for x in c['ctagged']) and not any(c['pin2']):
            c['vfile'] = 2
            # builds detected from the saved number: the head of a second branch carries the number of the build it points
            # to or follows, so one number names a "build" in each branch - which of them a pin means is not fixed by the
            # property; the two-branch / two-days variant is used with tagged builds only
            c['days'] = 0
    res = pmap(_job, cases, chunk=100)
    for c, prob in zip(cases, res):
        if prob:
            ctx.violation({'case': c}, prob)
    # repository order
    ro = []
    for nr in ((2, 3) if ctx.quick else (2, 3, 4)):
        r = ctx.tlc('ghist/RepoOrder.tla', 'SPECIFICATION Spec\nCHECK_DEADLOCK FALSE\nCONSTANTS\n  NRepos = %d\n  Emit = TRUE\n'
                    'INVARIANT AcyclicHasOrder\n' % nr, workers=4, timeout=3000)
        ro += [c for c in r.printed if isinstance(c, dict)]
    res = pmap(repo_order_case, ro, chunk=50)
    for c, prob in zip(ro, res):
        if prob:
            ctx.violation({'repo_order': c}, prob)
    bad = json.loads(json.dumps(next(c for c in cases if c['rb'] and c['linear'])))
    inc = bad['incl']
    k0 = bad['rb'][0]
    if isinstance(inc, list):
        inc[k0 - 1] = inc[k0 - 1] + [['master', 99]]
    else:
        inc[str(k0)] = inc[str(k0)] + [['master', 99]]
    ctx.selftest(observe(bad) is not None, 'replay accepted a corrupted included_at expectation')
    ctx.traces = len(cases) + len(ro)
    ctx.exhaustive = False
    ctx.extra['history_pairs_exhaustive'] = n_exh
    ctx.extra['history_pairs_simulated'] = len(sim)
    ctx.extra['pairs_with_report_related_component_builds'] = sum(1 for c in cases if c['rb'])
    ctx.extra['pairs_with_non_linear_component'] = sum(1 for c in cases if not c['linear'])
    ctx.extra['dependency_graphs'] = len(ro)
    for c in (cases[5], cases[n_exh // 2], cases[-1]):
        ctx.sample({k: c[k] for k in ('ck', 'cparents', 'cmatch', 'ctagged', 'h', 'pin', 'incl')})


def replay(ctx, case):
    if 'repo_order' in case:
        return repo_order_case(case['repo_order'])
    return _job(case['case'])
