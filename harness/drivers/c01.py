"""C01 - every parse result is a valid derivation of the user's grammar."""
from drivers import ll


def run(ctx):
    ll.explore(ctx, 'C01')


def replay(ctx, case):
    return ll.replay_case(ctx, case, 'C01')
