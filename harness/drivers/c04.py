"""C04 - source positions are exact and cover the text.

specs/llparser/LLTexts.tla      builder of texts over an alphabet containing every character class
specs/llparser/LLTokenizer.tla  reference tokenizer (state machine over characters) + judge of the tokens and
                                tree node spans observed on the real parser (TLC: Adjacent, Monotone)
"""
import json
import os
import re

from vcheck import Machinery, pmap

TOK = r'''(?P<SPACE>[ \x0c\t]+)|(?P<WORD>[ab]+)|(?P<NUM>1+)|(?P<CMT><)|"(?P<STR>[^"]*)"'''
SPANS = {'CMT': r"(?P<END_CMT>[^>]*)>"}
_P = {}


def parsers():
    if _P:
        return _P
    from ak.llparser import LLParser
    # another language in the same process: its span token has the same name but ends at ']' (built first, never used to
    # parse the texts of the family - the parsers below must not be affected by it)
    _P['other-language'] = LLParser(r'''(?P<SPACE>\s+)|(?P<WORD>[a-z]+)|(?P<CMT>\[)''', span_matchers={'CMT': r"(?P<END_CMT>[^\]]*)\]"},
                                    productions={'E': [('WORD', 'E'), ('CMT', 'E'), None]})
    _P['skip'] = LLParser(TOK, span_matchers=SPANS, productions={
        'E': [('ITEM', 'E'), None], 'ITEM': [('WORD', 'MODS'), ('NUM',), ('CMT',), ('STR',)], 'MODS': [('OPT', 'OPT2')], 'OPT': [('NUM',), None],
        'OPT2': [('STR',), None]})
    # backtracking: the non-empty alternative of the nullable LABEL starts with the token that follows LABEL
    _P['back'] = LLParser(TOK, span_matchers=SPANS, productions={
        'E': [('STMT', 'E'), None], 'STMT': [('LABEL', 'WORD', 'TAIL'), ('NUM',), ('CMT',), ('STR',)],
        'LABEL': [('WORD', 'NUM'), ('WORD', 'STR', 'NUM'), None], 'TAIL': [('STR',), None]})
    _P['all'] = LLParser(TOK, span_matchers=SPANS, skip_tokens=set(), productions={
        'E': [('ITEM', 'E'), None], 'ITEM': [('WORD',), ('NUM',), ('CMT',), ('SPACE',), ('STR',)]})
    return _P


def cps(s):
    return [ord(c) for c in s]


def _span(t):
    (sl, sc), (el, ec) = t.span
    return [sl, sc, el, ec]


def _orig(t, text):
    try:
        return cps(t.get_orig_text(text))
    except AssertionError:
        return [-1]
    except Exception:
        return [-2]


def observe(job):
    lines, aslist, which = job
    from ak.llparser import LexicalError, ParsingError
    p = parsers()[which]
    strs = [''.join(chr(c) for c in ln) for ln in lines]
    text = list(strs) if aslist else '\n'.join(strs)
    case = {'lines': lines, 'aslist': aslist, 'skip': ['SPACE'] if which != 'all' else [], 'outcome': 'ok', 'errline': 0,
            'leaves': [], 'nodes': [], 'grammar': which}
    try:
        root = p.parse(text, do_cleanup=False)
    except LexicalError as e:
        case['outcome'] = 'LexicalError'
        case['errline'] = e.src_pos.line
        return case
    except ParsingError:
        case['outcome'] = 'ParsingError'
        return case
    except Exception as e:
        case['outcome'] = 'exc:' + type(e).__name__
        return case
    leaves, nodes = case['leaves'], case['nodes']

    def walk(t):
        v = t.value
        if isinstance(v, list):
            first = len(leaves) + 1
            for x in v:
                walk(x)
            last = len(leaves)
            nodes.append({'first': first, 'last': last, 'empty': last < first, 's': _span(t), 'orig': _orig(t, text), 'name': t.name})
        elif v is None:
            nodes.append({'first': len(leaves) + 1, 'last': len(leaves), 'empty': True, 's': _span(t), 'orig': _orig(t, text), 'name': t.name})
        else:
            leaves.append({'n': t.name, 'v': cps(v), 's': _span(t), 'orig': _orig(t, text)})
    walk(root)
    return case


def _enc(c):
    """the observation as the judge reads it (JSON text without the grammar name)"""
    return json.dumps({k: v for k, v in c.items() if k != 'grammar'}, separators=(',', ':'))


def observe_text(job):
    """observe() for the pool: (outcome, grammar, JSON text) - the parent keeps text, not objects (memory)"""
    c = observe(job)
    return c['outcome'], c['grammar'], _enc(c)


def _dec(ent):
    c = json.loads(ent[2])
    c['grammar'] = ent[1]
    return c


def _tags(case, verdict):
    """structural predicates of known/fixed findings"""
    tags = []
    if verdict == 'REJECT-leaf-position-or-text':
        tags.append('ll.token_starts_at_previous_end')
    if verdict == 'REJECT-node-span':
        tags.append('ll.node_ends_at_following_token')
    return tags


def judge(ctx, cases):
    verd = {}
    CH = 30000
    for off in range(0, len(cases), CH):
        part = cases[off:off + CH]
        path = os.path.join(ctx.tmp, 'c04_%d.ndjson' % off)
        with open(path, 'w') as f:
            for c in part:
                f.write((c if isinstance(c, str) else _enc(c)) + '\n')
        r = ctx.tlc('llparser/LLTokenizer.tla', 'SPECIFICATION Spec\nCHECK_DEADLOCK FALSE\nINVARIANT Adjacent\nINVARIANT Monotone\n',
                    env={'CASES': path}, workers=16, timeout=3600, heap='12g')
        os.unlink(path)
        for ln in r.raw_printed:
            m = re.match(r'<<"([A-Za-z-]+)", (\d+)>>', ln)
            if m:
                verd[off + int(m.group(2))] = m.group(1)
    if len(verd) != len(cases):
        raise Machinery('LLTokenizer judge gave %d verdicts for %d cases' % (len(verd), len(cases)))
    return verd


def run(ctx):
    ctx.assumptions += ['token patterns are maximal runs of one character class (space, [ab], 1) plus one span token "<" ... ">"; '
                        'and a quoted string whose pattern matches more than its value; regex alternation order versus longest match is outside the property',
                        'the position of the end-of-text token (where trailing empty nodes sit) is the end of the last token',
                        'an unclosed span must raise LexicalError (its position is not judged)']
    texts = []
    for ml, mx in ((1, 4), (2, 2)) if ctx.quick else ((1, 5), (2, 3)):
        r = ctx.tlc('llparser/LLTexts.tla', 'SPECIFICATION Spec\nCHECK_DEADLOCK FALSE\nCONSTANTS\n  MaxLines = %d\n  MaxLen = %d\n  Emit = TRUE\n'
                    'INVARIANT Bounded\n' % (ml, mx), workers=16, timeout=3000, heap='12g')
        texts += [t for t in r.printed if isinstance(t, list)]
    n_exh = len(texts)
    r = ctx.tlc('llparser/LLTexts.tla', 'SPECIFICATION Spec\nCHECK_DEADLOCK FALSE\nCONSTANTS\n  MaxLines = 4\n  MaxLen = 7\n  Emit = TRUE\n',
                workers=8, simulate=(6000 if ctx.quick else 80000) // 8, depth=30, timeout=3000)
    sim = [t for t in r.printed if isinstance(t, list)]
    texts += sim
    if n_exh < 3000:
        raise Machinery('LLTexts emitted %d texts' % n_exh)
    jobs = []
    for i, t in enumerate(texts):
        jobs.append((t, False, 'skip'))
        jobs.append((t, True, 'all' if i % 2 else 'skip'))
        if i % 3 == 0:
            jobs.append((t, False, 'all'))
        jobs.append((t, bool(i % 2), 'back'))
    cases = pmap(observe_text, jobs, chunk=500)
    del jobs
    for ent in cases:
        if ent[0].startswith('exc:'):
            c = _dec(ent)
            ctx.violation({'lines': c['lines'], 'aslist': c['aslist'], 'skip': c['skip'], 'grammar': c['grammar']}, 'parse raised %s' % c['outcome'][4:])
    cases = [ent for ent in cases if not ent[0].startswith('exc:')]
    # synthetic self-tests
    base = {'lines': [cps('ab 1'), cps(' b')], 'aslist': False, 'skip': ['SPACE'], 'outcome': 'ok', 'errline': 0,
            'leaves': [{'n': 'WORD', 'v': cps('ab'), 's': [1, 1, 1, 3], 'orig': cps('ab')}, {'n': 'NUM', 'v': cps('1'), 's': [1, 4, 1, 5], 'orig': cps('1')},
                       {'n': 'WORD', 'v': cps('b'), 's': [2, 2, 2, 3], 'orig': cps('b')}],
            'nodes': [{'first': 1, 'last': 2, 'empty': False, 's': [1, 1, 1, 5], 'orig': cps('ab 1')},
                      {'first': 4, 'last': 3, 'empty': True, 's': [2, 3, 2, 3], 'orig': []}]}
    bad1 = json.loads(json.dumps(base))
    bad1['leaves'][2]['s'] = [1, 5, 2, 3]
    bad1['leaves'][2]['orig'] = cps('\n b')
    bad2 = json.loads(json.dumps(base))
    bad2['nodes'][0]['s'] = [1, 1, 2, 2]
    bad2['nodes'][0]['orig'] = cps('ab 1\n ')
    allc = [ent[2] for ent in cases] + [base, bad1, bad2]
    verd = judge(ctx, allc)
    del allc
    n = len(cases)
    ctx.selftest(verd[n + 1] == 'ACCEPT' and verd[n + 2].startswith('REJECT') and verd[n + 3].startswith('REJECT'),
                 'LLTokenizer self-test %s' % [verd[n + k] for k in (1, 2, 3)])
    for i in range(1, n + 1):
        v = verd[i]
        if v != 'ACCEPT':
            c = _dec(cases[i - 1])
            strs = [''.join(chr(x) for x in ln) for ln in c['lines']]
            ctx.violation({'lines': c['lines'], 'aslist': c['aslist'], 'skip': c['skip'], 'grammar': c['grammar']},
                          'text %r (%s, skip=%s, grammar %s): %s; leaves %s; nodes %s' % (
                              strs, 'list of lines' if c['aslist'] else 'str', c['skip'], c['grammar'], v,
                              [(l['n'], tuple(l['s'])) for l in c['leaves']], [(nd.get('name'), tuple(nd['s'])) for nd in c['nodes']][:6]),
                          _tags(c, v))
    ctx.traces = n
    ctx.exhaustive = False
    ctx.extra['texts_exhaustive'] = n_exh
    ctx.extra['texts_simulated'] = len(sim)
    ctx.extra['outcomes'] = {k: sum(1 for ent in cases if ent[0] == k) for k in ('ok', 'LexicalError', 'ParsingError')}
    for c in (_dec(cases[50]), _dec(cases[n // 2]), _dec(cases[-1])):
        ctx.sample({'lines': [''.join(chr(x) for x in ln) for ln in c['lines']], 'outcome': c['outcome'],
                    'leaves': [(l['n'], l['s']) for l in c['leaves']]})


def replay(ctx, case):
    which = case.get('grammar') or ('skip' if case['skip'] else 'all')
    c = observe((case['lines'], case['aslist'], which))
    if c['outcome'].startswith('exc:'):
        return c['outcome']
    v = judge(ctx, [c])[1]
    return None if v == 'ACCEPT' else v
