"""C08 - colored text behaves exactly like the underlying string.

specs/color/CHText.tla  A-spec (sequence of <<char, colour>>, str operations lifted) + I-spec (chunk list)
TLC: Refines / Canonical over the register state space; histories of operations emitted (exhaustive to
depth MaxOps, simulated beyond) and replayed on real CHText objects, abstract state compared after each step.
"""
import json
import signal

import sgr
from vcheck import Machinery, pmap, guarded

NONE = 99


def _cfg(maxtext, maxops, b, track, emit, invs=True):
    return ('SPECIFICATION Spec\nCHECK_DEADLOCK FALSE\nCONSTANTS\n  MaxText = %d\n  MaxOps = %d\n  B = %d\n'
            '  TrackHist = %s\n  Emit = %s\n' % (maxtext, maxops, b, 'TRUE' if track else 'FALSE',
                                               'TRUE' if emit else 'FALSE')
            + ('INVARIANT Refines\nINVARIANT Canonical\n' if invs else ''))


class _Hang(Exception):
    pass


def _alarm(*a):
    raise _Hang()


_ENV = {}


def _env():
    if _ENV:
        return _ENV
    from ak.color import CHText, ColorFmt
    fm = [ColorFmt.get_plaintext_fmt(), ColorFmt('RED'), ColorFmt('GREEN', bold=True)]
    _ENV.update(CHText=CHText, fm=fm, pref={fm[i]('x').c_prefix: i for i in range(3)},
                states={sgr.paint(str(fm[i]('x')))[0][0][1]: i for i in range(3)})
    return _ENV


def _project(t):
    e = _env()
    out = []
    for ch in t.chunks:
        col = e['pref'].get(ch.c_prefix, -1)
        out += [[c, col] for c in ch.text]
    return out


def _chunks(t):
    e = _env()
    return [{'col': e['pref'].get(ch.c_prefix, -1), 's': list(ch.text)} for ch in t.chunks]


def _opnd(o, regs):
    e = _env()
    if o['k'] == 'str':
        return ''.join(o['s'])
    if o['k'] == 'chunk':
        return e['fm'][o['col']](''.join(o['s']))
    return regs[o['r'] - 1]


def _check_text(t, exp, where):
    """A-spec observation of one text; returns problem string or None"""
    e = _env()
    CHText = e['CHText']
    got = _project(t)
    if got != exp:
        return '%s: visible text/colours %s, spec %s' % (where, got, exp)
    plain = ''.join(c for c, _ in exp)
    if len(t) != len(exp):
        return '%s: len() = %d, visible characters %d' % (where, len(t), len(exp))
    if t.plain_text() != plain:
        return '%s: plain_text() %r != %r' % (where, t.plain_text(), plain)
    cells, final, probs = sgr.paint(str(t))
    shown = [[c, e['states'].get(st, -1)] for c, st in cells]
    if shown != exp or probs or final != sgr.DEFAULT:
        return '%s: str() shows %s, spec %s %s' % (where, shown, exp, probs)
    ref = CHText(*[e['fm'][col](c) for c, col in exp])      # assembled character by character
    if not (t == ref) or not (ref == t):
        return '%s: not equal to the same characters/colours assembled chunk by chunk (chunks %s)' % (
            where, _chunks(t))
    allplain = all(col == 0 for _, col in exp)
    if bool(t == plain) != allplain:
        return '%s: (text == %r) is %s' % (where, plain, t == plain)
    if not exp:
        for col in (0, 1):
            ch = e['fm'][col]('')
            if not (t == ch) or not (ch == t):
                return '%s: the empty text is not equal to an empty chunk' % where
    # comparison with strings that are NOT the text: every proper prefix, and the text plus one character
    for s in [plain[:k] for k in range(len(plain))] + [plain + 'a']:
        if (t == s) or (s == t) or not (t != s):
            return '%s: text with visible characters %r compares equal to %r' % (where, plain, s)
    # every position read back through indexing and through a slice that starts there
    for i in range(len(exp)):
        for idx in (i, i - len(exp)):
            try:
                one = _project(t[idx])
            except Exception as ex:
                return '%s: [%d] raised %s: %s' % (where, idx, type(ex).__name__, str(ex)[:60])
            if one != [exp[i]]:
                return '%s: [%d] is %s, spec %s' % (where, idx, one, [exp[i]])
        try:
            rest = _project(t[i:])
        except Exception as ex:
            return '%s: [%d:] raised %s: %s' % (where, i, type(ex).__name__, str(ex)[:60])
        if rest != exp[i:]:
            return '%s: [%d:] is %s, spec %s' % (where, i, rest, exp[i:])
    return None


def replay_history(hist):
    """-> (problem or None, drift or None, tags)"""
    e = _env()
    CHText = e['CHText']
    regs = [CHText(), CHText()]
    drift = None
    signal.signal(signal.SIGALRM, _alarm)
    # the caller keeps the left operand of every concatenation (t + x, x + t, t.join(...)): like a str it must still show
    # what it showed, whatever is later done to the result (in-place += included)
    olds, last_exp = [], []
    for n, st in enumerate(hist):
        op = st['op']
        where = 'step %d (%s)' % (n + 1, op)
        signal.alarm(20)
        try:
            t = regs[0]
            if op in ('add', 'radd', 'join'):
                olds.append((t, last_exp, n + 1))
            if op == 'new':
                regs[0] = CHText(*[_opnd(o, regs) for o in st['args']])
            elif op == 'add':
                regs[0] = t + _opnd(st['args'][0], regs)
            elif op == 'iadd':
                t += _opnd(st['args'][0], regs)
                regs[0] = t
            elif op == 'radd':
                regs[0] = _opnd(st['args'][0], regs) + t
            elif op == 'join':
                regs[0] = t.join([_opnd(o, regs) for o in st['args']])
            elif op == 'index':
                try:
                    r = t[st['i']]
                    if st['exp'] == 'IndexError':
                        return '%s: [%d] returned %r, str raises IndexError' % (where, st['i'], r.plain_text()), drift, []
                    regs[0] = r
                except IndexError:
                    if st['exp'] != 'IndexError':
                        return '%s: [%d] raised IndexError on text of length %d' % (where, st['i'], len(t)), drift, []
                    continue
            elif op == 'slice':
                i = None if st['i'] == NONE else st['i']
                j = None if st['j'] == NONE else st['j']
                regs[0] = t[i:j]
            elif op == 'fixed_len':
                regs[0] = t.fixed_len(st['n'])
            elif op == 'format':
                w = st['width']
                specs = [st['fill'] + st['align'] + (str(w) if w else '')]
                if st['fill'] == ' ':
                    specs.append(st['align'] + (str(w) if w else ''))
                    if st['align'] == '<' and w:
                        specs.append(str(w))
                        specs.append(str(w) + 's')
                specs.append(specs[0] + 's')
                exp = [list(x) for x in st['exp']]
                for spec in specs:
                    out = format(t, spec)
                    cells, final, probs = sgr.paint(out)
                    shown = [[c, e['states'].get(s_, -1)] for c, s_ in cells]
                    if shown != exp or probs or final != sgr.DEFAULT:
                        return '%s: format(%r, %r) shows %s, spec %s' % (where, t.plain_text(), spec, shown, exp), drift, []
                    if sgr_strip(out) != format(t.plain_text(), spec):
                        return '%s: format(%r, %r) visible text differs from str.__format__' % (where, t.plain_text(), spec), drift, []
                continue
            elif op == 'save':
                regs[1] = CHText(t)
            elif op == 'swap':
                regs.reverse()
        except _Hang:
            tags = []
            if op == 'iadd' and st['args'][0].get('k') == 'reg' and st['args'][0].get('r') == 1:
                tags = ['chtext.iadd_self_multichunk']
            return '%s does not return (operands %s)' % (where, st.get('args')), drift, tags
        except Exception as ex:
            return '%s raised %s: %s' % (where, type(ex).__name__, str(ex)[:100]), drift, []
        finally:
            signal.alarm(0)
        exp = [list(x) for x in st['exp']]
        p = _check_text(regs[0], exp, where)
        if p:
            return p, drift, []
        last_exp = exp
        for old, old_exp, k in olds[-3:]:
            if old is regs[0] and op in ('add', 'radd', 'join') and k == n + 1:
                continue        # judged below, as soon as the result is changed in place
            if old is regs[0] or old is regs[1]:
                if k == n + 1 or old_exp == exp or op in ('swap', 'save'):
                    continue
            p = _check_text(old, old_exp, '%s: the operand of the concatenation of step %d, kept by the caller,' % (where, k))
            if p:
                return p, drift, []
        if drift is None and _chunks(regs[0]) != st['chunks']:
            drift = '%s: chunk list %s, I-spec %s' % (where, _chunks(regs[0]), st['chunks'])
    return None, drift, []


def sgr_strip(s):
    return ''.join(v for k, v in sgr.items(s) if k == 'ch')


@guarded(lambda m: (m, None, []))
def _job(hist):
    return replay_history(hist)


def run(ctx):
    ctx.assumptions += [
        'operand pool: strings "", "a", "ab"; chunks of 3 colours with text "" or "b"; the two registers '
        '(including the target itself); index/slice bounds -B..B and None; format specs [[fill]align][width][s]',
        'a 20 s alarm per operation only detects operations that never return',
    ]
    # 1. model checking of the register state space (no histories)
    mt = 3 if ctx.quick else 4
    ctx.tlc('color/CHText.tla', _cfg(mt, 0, 3, False, False), workers=16, timeout=3000)
    # 2. all histories of depth D, replayed
    depth = 2
    r = ctx.tlc('color/CHText.tla', _cfg(6, depth, 3, True, True), workers=16, timeout=3000, heap='12g')
    hists = [h for h in r.printed if isinstance(h, list)]
    if len(hists) < 1000:
        raise Machinery('CHText emitted only %d histories' % len(hists))
    n_exh = len(hists)
    # 3. longer random histories (TLC simulation)
    nsim = 3000 if ctx.quick else 60000
    sdepth = 7
    r2 = ctx.tlc('color/CHText.tla', _cfg(8, sdepth, 4, True, True, invs=True), workers=8,
                 simulate=nsim // 8, depth=sdepth + 2, timeout=3000)
    sim = [h for h in r2.printed if isinstance(h, list)]
    hists += sim
    res = pmap(_job, hists)
    for h, (prob, drift, tags) in zip(hists, res):
        if prob:
            ctx.violation({'history': h}, prob, tags)
        if drift:
            ctx.note_drift(drift)
    # negative self-test: corrupt one expected state
    bad = json.loads(json.dumps(hists[len(hists) // 2]))
    for st in bad:
        if isinstance(st['exp'], list) and st['exp']:
            st['exp'][0][1] = (st['exp'][0][1] + 1) % 3
            break
    else:
        bad[0]['exp'] = [['a', 1]]
    ctx.selftest(replay_history(bad)[0] is not None, 'replay accepted a corrupted expected state')
    ctx.traces = len(hists)
    ctx.exhaustive = False
    ctx.extra['histories_exhaustive_depth'] = depth
    ctx.extra['histories_exhaustive'] = n_exh
    ctx.extra['histories_simulated'] = len(sim)
    ctx.extra['simulated_depth'] = sdepth
    for h in (hists[7], hists[n_exh // 2], hists[-1]):
        ctx.sample([{k: v for k, v in st.items() if k != 'chunks'} for st in h])


def replay(ctx, case):
    return replay_history(case['history'])[0]
