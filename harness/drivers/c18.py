"""C18 - objects read from a sheet match their source cells.

specs/xls/XlsRead.tla  sheet builder, reader semantics (end rules, ladder fill-down with origins), TLC:
                       OriginsHold, LadderEquivalence
Every emitted sheet is materialised as a mock worksheet and read with iter_table / read_table.
"""
import json

from vcheck import Machinery, pmap


class _Sheet:
    title = 'S 1'

    def __init__(self, rows):
        self._rows = [[_Cell(self, v, r + 1, c) for c, v in enumerate(row)] for r, row in enumerate(rows)]

    def iter_rows(self):
        for r in self._rows:
            yield tuple(r)


class _Cell:
    def __init__(self, parent, v, row, col):
        self.parent = parent
        self.value = None if v == '' else (0 if v == '0' else v)      # '0' = the number 0
        self.coordinate = '%s%d' % ('ABCDEF'[col], row)

    def __repr__(self):
        return '<Cell %s>' % self.coordinate


_ENV = {}


def _env():
    if _ENV:
        return _ENV
    from ak import xlsread

    class Obj(xlsread.XlsObject):
        _ATTRS = ['id', 'name', 'opt', 'ext', 'marks']
        _NUM_ID_ATTRS = 1

    class Obj2(Obj):
        _NUM_ID_ATTRS = 2          # composite key (id, name)
    rules = {'id': ('Id', xlsread.cell_str), 'name': ('Name', xlsread.cell_str),
             'opt': ('Opt', xlsread.cell_str, {'default_val': 'D'}), 'ext': None,
             'marks': ('*', xlsread.CellRangeDict(xlsread.cell_str), {'default_val': dict})}
    # the TableReader mixin: a base class with its own rules (id and name swapped) and a derived class with `rules`
    base_rules = dict(rules, id=('Name', xlsread.cell_str), name=('Id', xlsread.cell_str))

    class BaseT(Obj, xlsread.TableReader):
        ATTR_RULES = base_rules

    class DerT(BaseT):
        ATTR_RULES = rules
    # two objects per row: the plain attributes and the ranged attribute are read into different objects
    class ObjA(xlsread.XlsObject):
        _ATTRS = ['id', 'opt', 'ext']
        _NUM_ID_ATTRS = 1

    class ObjM(xlsread.XlsObject):
        _ATTRS = ['name', 'marks']          # the first attribute of an object must be a single cell (its anchor)
        _NUM_ID_ATTRS = 0
    rules_a = {k: rules[k] for k in ('id', 'opt', 'ext')}
    # here the external attribute declares a callable default (a factory: every object gets its own list)
    rules_a['ext'] = (None, None, {'default_val': list})
    rules_m = {'name': rules['name'], 'marks': rules['marks']}
    _ENV.update(x=xlsread, Obj=Obj, Obj2=Obj2, rules=rules, BaseT=BaseT, DerT=DerT, ObjA=ObjA, ObjM=ObjM, rules_a=rules_a, rules_m=rules_m)
    return _ENV


def _conv(v):
    return None if v['none'] else v['s']


def _org(o):
    return '%s%d' % (o['col'], o['row'])


def _compare(objs, exp, where, key_n=1):
    if len(objs) != len(exp):
        return '%s: %d results, the end-of-table rule gives %d data rows' % (where, len(objs), len(exp))
    for k, (o, e) in enumerate(zip(objs, exp)):
        w = '%s, data row %d' % (where, k + 1)
        if e['isnone']:
            if o is not None:
                return '%s: object %s for a row with blank key' % (w, o)
            continue
        if o is None:
            return '%s: no object' % w
        want_key = _conv(e['id']['val']) if key_n == 1 else (_conv(e['id']['val']), _conv(e['name']['val']))
        if o.logic_id != want_key:
            return '%s: logic_id %r, key cells hold %r' % (w, o.logic_id, want_key)
        for attr in ('id', 'name'):
            if getattr(o, attr) != _conv(e[attr]['val']):
                return '%s: %s = %r, source cell holds %r' % (w, attr, getattr(o, attr), _conv(e[attr]['val']))
            if o.get_attr_origin(attr) != _org(e[attr]['org']):
                return '%s: origin of %s reported as %s, value comes from %s' % (w, attr, o.get_attr_origin(attr), _org(e[attr]['org']))
        if e['opt']['dflt']:
            if o.opt != 'D' or o.get_attr_origin('opt') != '<skipped column>':
                return '%s: optional attribute without column: %r / %s' % (w, o.opt, o.get_attr_origin('opt'))
        else:
            if o.opt != _conv(e['opt']['val']) or o.get_attr_origin('opt') != _org(e['opt']['org']):
                return '%s: opt = %r from %s, expected %r from %s' % (w, o.opt, o.get_attr_origin('opt'), _conv(e['opt']['val']), _org(e['opt']['org']))
        if o.ext is not None or o.get_attr_origin('ext') != '<n/a>':
            return '%s: external attribute %r / %s' % (w, o.ext, o.get_attr_origin('ext'))
        # a TLA+ function over columns: JSON object, or a JSON array when its domain is 1..n
        marks = e['marks'] if isinstance(e['marks'], dict) else dict(enumerate(e['marks']))
        want = {m['key']: _conv(m['val']) for m in marks.values()}
        if o.marks != want:
            return '%s: ranged attribute %r, source cells give %r' % (w, o.marks, want)
        for m in marks.values():
            if o.get_attr_origin('marks', m['key']) != _org(m['org']):
                return '%s: origin of marks[%s] %s, expected %s' % (w, m['key'], o.get_attr_origin('marks', m['key']), _org(m['org']))
        coords = sorted(_org(m['org']) for m in marks.values())
        wr = '<skipped column>' if not coords else (coords[0] if len(coords) == 1 else '%s:%s' % (coords[0], coords[-1]))
        if o.get_attr_origin('marks') != wr:
            return '%s: origin of the ranged attribute %s, expected %s' % (w, o.get_attr_origin('marks'), wr)
        if o.get_attr_origin('id', incl_ws=True) != "'S 1' " + _org(e['id']['org']):
            return '%s: origin with sheet name %r' % (w, o.get_attr_origin('id', incl_ws=True))
    # the declared default of the ranged attribute is the callable `dict`: every object gets its own value - what the
    # caller later puts into one object's default must not show in another object
    dfl = [o for o, e in zip(objs, exp) if o is not None and not e['isnone'] and not e['marks']]
    if len(dfl) >= 2:
        dfl[0].marks['probe'] = 1
        try:
            for k, o in enumerate(dfl[1:]):
                if o.marks != {}:
                    return ('%s: the defaulted ranged attribute of object %d reads %r after the default of the first object '
                            'was modified by the caller (declared default: dict())' % (where, k + 2, o.marks))
        finally:
            del dfl[0].marks['probe']
    return None


def run_case(case):
    try:
        return _run_case(case)
    except Exception as ex:
        # values and origins are read through the public accessors of the returned objects: an exception there (e.g.
        # get_attr_origin refusing a key the object holds) is an observation, not a failure of the machinery
        return 'sheet %s stop_on=%r ladder=%s: reading the attributes / origins of the returned objects raised %s: %s' % (
            case['sheet'], case['stopOn'], case['ladder'], type(ex).__name__, str(ex)[:120])


def _run_case(case):
    e = _env()
    x = e['x']
    key_n = case.get('keyN', 1)
    cls = e['Obj'] if key_n == 1 else e['Obj2']
    where = 'sheet %s stop_on=%r ladder=%s key attributes=%d' % (case['sheet'], case['stopOn'], case['ladder'], key_n)
    try:
        objs = x.read_table(_Sheet(case['sheet']), cls, e['rules'], stop_on=case['stopOn'],
                            ladder_format=case['ladder'])
    except Exception as ex:
        return '%s: read_table raised %s: %s' % (where, type(ex).__name__, str(ex)[:100])
    r = _compare(objs, case['objs'], where, key_n)
    if r:
        return r
    if key_n == 1:
        # the same table read into two objects per row (XlsTableReader with two rule sets): the columns claimed by the
        # first object are not part of the ranged group of the second one
        w3 = where + ' read into two objects per row (XlsTableReader with two XlsObjReadRules)'
        try:
            rd = x.XlsTableReader(x.XlsObjReadRules(e['ObjA'], e['rules_a']), x.XlsObjReadRules(e['ObjM'], e['rules_m']))
            pairs = list(rd.iter_table(_Sheet(case['sheet']), stop_on=case['stopOn'], ladder_format=case['ladder']))
        except Exception as ex:
            return '%s raised %s: %s' % (w3, type(ex).__name__, str(ex)[:100])
        if len(pairs) != len(case['objs']):
            return '%s: %d rows, expected %d' % (w3, len(pairs), len(case['objs']))
        for k, ((a, m), ex_) in enumerate(zip(pairs, case['objs'])):
            if ex_['isnone']:
                if a is not None:
                    return '%s, data row %d: object for a row with blank key' % (w3, k + 1)
                continue
            if a is None or m is None:
                return '%s, data row %d: no object' % (w3, k + 1)
            if (a.id, m.name) != (_conv(ex_['id']['val']), _conv(ex_['name']['val'])):
                return '%s, data row %d: id/name %r, cells hold %r' % (w3, k + 1, (a.id, m.name), (_conv(ex_['id']['val']), _conv(ex_['name']['val'])))
            if a.ext != [] or a.get_attr_origin('ext') != '<n/a>':
                return '%s, data row %d: external attribute with declared default list(): %r / %s' % (w3, k + 1, a.ext, a.get_attr_origin('ext'))
            a.ext.append('row %d' % (k + 1))        # what the caller does with one object's default is that object's business
            marks = ex_['marks'] if isinstance(ex_['marks'], dict) else dict(enumerate(ex_['marks']))
            wantm = {mm['key']: _conv(mm['val']) for mm in marks.values()}
            if m.marks != wantm:
                return '%s, data row %d: ranged attribute %r, source cells give %r' % (w3, k + 1, m.marks, wantm)
            for mm in marks.values():
                if m.get_attr_origin('marks', mm['key']) != _org(mm['org']):
                    return '%s, data row %d: origin of marks[%s] %s, expected %s' % (
                        w3, k + 1, mm['key'], m.get_attr_origin('marks', mm['key']), _org(mm['org']))
        for k, (a, m) in enumerate(pairs):
            if a is not None and a.ext != ['row %d' % (k + 1)]:
                return ('%s, data row %d: the external attribute (declared default list()) reads %r after every object got '
                        'its own row number appended' % (w3, k + 1, a.ext))
    if not case['ladder'] and case['stopOn'] == 'blank all' and key_n == 1:
        # the same table through the TableReader mixin: base class first, then the class derived from it
        try:
            e['BaseT'].read_list(_Sheet(case['sheet']))
        except Exception:
            pass
        w2 = where + ' read with DerT.read_list (TableReader mixin, after BaseT.read_list)'
        try:
            objs2 = e['DerT'].read_list(_Sheet(case['sheet']))
        except Exception as ex:
            return '%s raised %s: %s' % (w2, type(ex).__name__, str(ex)[:100])
        if any(o is not None and type(o) is not e['DerT'] for o in objs2):
            return '%s: objects of type %s' % (w2, sorted({type(o).__name__ for o in objs2 if o is not None}))
        r = _compare(objs2, case['objs'], w2, 1)
        if r:
            return r
    if case['ladder'] and case['stopOn'] == 'blank all':
        try:
            plain = list(x.iter_table(_Sheet(case['filled']), cls, e['rules'], stop_on=case['stopOn']))
        except Exception as ex:
            return '%s: reading the filled-in table raised %s' % (where, type(ex).__name__)
        a = [None if o is None else (o.id, o.name, o.opt, o.ext, o.marks) for o in objs]
        b = [None if o is None else (o.id, o.name, o.opt, o.ext, o.marks) for o in plain]
        if a != b:
            return '%s: ladder reading %s differs from reading the filled-in table %s' % (where, a, b)
    return None


def _cfg(maxrows, emit, maxcols=5):
    return ('SPECIFICATION Spec\nCHECK_DEADLOCK FALSE\nCONSTANTS\n  MaxRows = %d\n  Emit = %s\n  MaxCols = %d\n'
            'INVARIANT OriginsHold\nINVARIANT LadderEquivalence\n' % (maxrows, 'TRUE' if emit else 'FALSE', maxcols))


def run(ctx):
    ctx.assumptions += ['rule set: key attribute Id (or composite key Id+Name), Name, optional Opt with default, one external attribute, one '
                        'ranged dict attribute; 10 column layouts (order, blank-titled, unknown, separated unknown '
                        'columns); cell values blank / a / b / the number 0; distinct titles',
                        'ladder equivalence is stated for the "blank all" end rule (a blank first cell ends a '
                        '"blank first" table before any fill-down)']
    r = ctx.tlc('xls/XlsRead.tla', _cfg(1, True), workers=16, timeout=7200, heap='16g')
    cases = [c for c in r.printed if isinstance(c, dict)]
    if not ctx.quick:
        # two data rows: exhaustive for the layouts of at most 3 columns (with all ten layouts the state space is 10^8)
        r = ctx.tlc('xls/XlsRead.tla', _cfg(2, True, 3), workers=16, timeout=7200, heap='16g')
        cases += [c for c in r.printed if isinstance(c, dict)]
    n_exh = len(cases)
    if n_exh < 1000:
        raise Machinery('XlsRead emitted %d cases' % n_exh)
    r = ctx.tlc('xls/XlsRead.tla', _cfg(4, True), workers=8, simulate=(6000 if ctx.quick else 300000) // 8, depth=9, timeout=3000)
    sim = [c for c in r.printed if isinstance(c, dict)]
    cases += sim
    res = pmap(run_case, cases)
    for c, prob in zip(cases, res):
        if prob:
            ctx.violation({'case': c}, prob)
    bad = json.loads(json.dumps(next(c for c in cases if c['objs'] and not c['objs'][0]['isnone'])))
    bad['objs'][0]['id']['org']['row'] += 1
    ctx.selftest(run_case(bad) is not None, 'replay accepted a corrupted origin')
    ctx.traces = len(cases)
    ctx.exhaustive = False
    ctx.extra['sheets_exhaustive'] = n_exh
    ctx.extra['sheets_simulated'] = len(sim)
    ctx.extra['exhaustive_max_rows'] = '1 (all layouts)' if ctx.quick else '1 (all layouts), 2 (layouts of at most 3 columns)'
    for c in (cases[10], cases[n_exh // 2], cases[-1]):
        ctx.sample({'sheet': c['sheet'], 'stop_on': c['stopOn'], 'ladder': c['ladder'], 'results': len(c['objs'])})


def replay(ctx, case):
    return run_case(case['case'])
