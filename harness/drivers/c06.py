"""C06 - history report attributes every matching commit to the right build per branch.

specs/ghist/GHist.tla       history model + the report relation ReportOK / BranchOK (A-spec)
specs/ghist/GHistCases.tla  builder of histories (commits with <= 2 parents, tags, branch heads); TLC: Satisfiable
specs/ghist/GHistJudge.tla  judge of the reports of the real code, one verdict per branch
"""
import json
import os
import re

import ghmock
from vcheck import Machinery, pmap

SEARCH = 'BUG.7'       # contains a character that would be special in a regular expression
_ENV = {}


def _env():
    if _ENV:
        return _ENV
    from ak.ghist import ProjectRepo, ReposCollection, BuildNumData, RBuild

    class Repo1(ProjectRepo):
        _SAVED_BUILD_NUM_SOURCES = ['VERSION']

    _ENV.update(Repo1=Repo1, ReposCollection=ReposCollection, RBuild=RBuild)
    return _ENV


def make_repo(h, time_step=2 * 86400):
    commits, tags = {}, {}
    for c in range(1, h['n'] + 1):
        ps = sorted(h['parents'][c - 1], reverse=(c % 2 == 0))
        # a matching commit mentions the search text somewhere in its message: first line, or only in a trailer
        # the search text is plain text, not a pattern: "BUG-7" (any character instead of the dot) does not match
        msg = (('BUG.7 fix %d', 'fix %d\n\nRefs: BUG.7\n', 'fix %d (BUG.7)\nsecond line')[c % 3] % c) if h['match'][c - 1] else (
            # ... and it is case-sensitive: "bug.7" / "Bug.7" do not match
            ('other %d BUG-7', 'other %d\n\nRefs: BUG-7, BUG.8', 'other %d bug.7\n\nRefs: Bug.7')[c % 3] % c)
        commits[c] = (ps, msg, {})
        if h['tagged'][c - 1]:
            tags['build_%d_release_1_0_success' % (100 + c)] = c
    return ghmock.Repo('r1', commits, tags, dict(h['head']), time_step=time_step)


def observe(h):
    e = _env()
    repo = make_repo(h)
    coll = e['ReposCollection']({'r1': e['Repo1']('r1', repo, 'origin')})
    data = coll.make_reports_data(SEARCH)
    assert len(data) == 1
    _, rgraph = data[0]
    report, order = {}, []
    for rb in rgraph.branches:
        order.append(rb.branch_name)
        entries = []
        for rbuild in rb.get_rbuilds_list():
            listed = [rc.commit.intid for rc in rbuild.get_printable_rcommits()]
            if rbuild.build_type == e['RBuild'].FAKE_NOT_MERGED:
                entries.append({'kind': 'notmerged', 'commit': 0, 'listed': listed})
            else:
                kind = 'notbuilt' if rbuild.build_num.is_fake_not_built() else 'build'
                entries.append({'kind': kind, 'commit': rbuild.rcommit.commit.intid, 'listed': listed})
        report[rb.branch_name] = entries
    # the printed report must list the same builds and commits as the data
    text = coll.make_report(SEARCH).ch_text(no_color=True).plain_text()
    printed, porder, cur = {}, [], None
    for ln in text.split('\n'):
        st = ln.strip()
        m = re.match(r'^r1 (\S+):$', st)
        if m:
            cur = m.group(1)
            porder.append(cur)
            printed[cur] = []
            continue
        if cur is None or not st:
            continue
        if st.startswith('- not built -'):
            printed[cur].append({'kind': 'notbuilt', 'commit': h['head'][cur], 'listed': []})
        elif st.startswith('- not merged -'):
            printed[cur].append({'kind': 'notmerged', 'commit': 0, 'listed': []})
        elif re.match(r'^1\.0\.\d+', st):
            printed[cur].append({'kind': 'build', 'commit': int(st.split()[0].split('.')[2].split('-')[0]) - 100, 'listed': []})
        elif re.match(r'^[0-9a-f]\d{5}[0-9a-f]{5} ', st):
            printed[cur][-1]['listed'].append(int(st[1:6]))
    mismatch = None
    if porder != order or printed != report:
        mismatch = 'printed report %s %s differs from the report data %s %s' % (porder, printed, order, report)
    return {'h': h, 'report': report, 'order': order, 'print_mismatch': mismatch}


class _Hang(Exception):
    pass


def _alarm(*a):
    raise _Hang()


def _job(h):
    import signal
    signal.signal(signal.SIGALRM, _alarm)
    signal.alarm(60)          # a report for a handful of commits takes milliseconds; this only catches endless loops
    try:
        return observe(h)
    except _Hang:
        return {'h': h, 'error': 'does not return (no result after 60 s)'}
    except Exception as ex:
        return {'h': h, 'error': '%s: %s' % (type(ex).__name__, str(ex)[:200])}
    finally:
        signal.alarm(0)


def judge(ctx, cases):
    out = {}
    CH = 20000
    for off in range(0, len(cases), CH):
        part = cases[off:off + CH]
        path = os.path.join(ctx.tmp, 'c06_%d.ndjson' % off)
        with open(path, 'w') as f:
            for c in part:
                f.write(json.dumps(c) + '\n')
        r = ctx.tlc('ghist/GHistJudge.tla', 'SPECIFICATION Spec\nCHECK_DEADLOCK FALSE\n', env={'CASES': path}, workers=16,
                    timeout=3600, heap='12g')
        os.unlink(path)
        for ln in r.raw_printed:
            m = re.match(r'<<"(OK|BAD)", (\d+), "([^"]+)", "([^"]+)">>', ln)
            if m:
                out.setdefault(off + int(m.group(2)), {})[m.group(3)] = (m.group(1), m.group(4))
                continue
            m = re.match(r'<<"(ORDER-OK|ORDER-BAD)", (\d+)>>', ln)
            if m:
                out.setdefault(off + int(m.group(2)), {})['__order__'] = (m.group(1), '')
    if len(out) != len(cases) or any('__order__' not in v for v in out.values()):
        raise Machinery('GHistJudge verdicts incomplete: %d of %d' % (len(out), len(cases)))
    return out


def branch_order_case(job):
    """spec -> code: release branches sort by numeric-aware name, master / main last"""
    case, k = job
    from ak.ghist import BranchName
    import random
    rnd = random.Random(k)
    seps = './-_'
    names = []
    for chunks in case['sorted']:
        txt = 'origin/release'
        for i, c in enumerate(chunks):
            txt += ('/' if i == 0 else seps[(k + i) % 4]) + (str(c['v']) if c['k'] == 'num' else c['s'])
        names.append(txt)
    objs = [BranchName(n) for n in names] + [BranchName('origin/' + ('master' if k % 2 else 'main'), sort_prefix=['zzzzzzzzzzzzzz'])]
    rnd.shuffle(objs)
    got = [b.name for b in sorted(objs)]
    want = names + ['origin/' + ('master' if k % 2 else 'main')]
    if got != want:
        return 'branches sort as %s, numeric-aware order with master last is %s' % (got, want)
    for a in objs:
        for b in objs:
            if (a < b) != (want.index(a.name) < want.index(b.name)) or (a == b) != (a.name == b.name):
                return 'comparison of %s and %s is inconsistent with the order %s' % (a.name, b.name, want)
    return None


def _cfg(mc, mt, mb, emit, shape='any'):
    return ('SPECIFICATION Spec\nCHECK_DEADLOCK FALSE\nCONSTANTS\n  MaxCommits = %d\n  MaxTags = %d\n  MaxBranches = %d\n  Emit = %s\n  Shape = "%s"\n'
            % (mc, mt, mb, 'TRUE' if emit else 'FALSE', shape))


def run(ctx):
    ctx.assumptions += ['tag-based build detector, message-substring predicate; commit times 2 days apart (inside the 30-day '
                        'window); branch names release/1.9, release/1.10, release/1.10.1, master; merges have <= 2 parents',
                        'the report relation demands only what the statement says: any ancestry-minimal build may list a commit']
    ctx.tlc('ghist/GHistCases.tla', _cfg(3, 2, 2, False) + 'INVARIANT Satisfiable\n', workers=16, timeout=3000)
    r = ctx.tlc('ghist/GHistCases.tla', _cfg(3 if ctx.quick else 4, 2, 3 if ctx.quick else 2, True), workers=16, timeout=7200, heap='16g')
    hs = [h for h in r.printed if isinstance(h, dict)]
    # two parallel built lines that are merged plus a line that continues one of them (5 commits, fixed parents relation):
    # every choice of matching commits, up to 2 tags and the heads of up to 2 branches
    r = ctx.tlc('ghist/GHistCases.tla', _cfg(5, 2, 2, True, 'diamond'), workers=16, timeout=7200, heap='16g')
    dia = [h for h in r.printed if isinstance(h, dict)]
    ctx.extra['histories_diamond_family'] = len(dia)
    hs += dia
    n_exh = len(hs)
    if n_exh < 1000:
        raise Machinery('GHistCases emitted %d histories' % n_exh)
    r = ctx.tlc('ghist/GHistCases.tla', _cfg(8, 4, 4, True), workers=8, simulate=(24000 if ctx.quick else 200000) // 8, depth=30, timeout=3000)
    sim = [h for h in r.printed if isinstance(h, dict)]
    hs += sim
    obs = pmap(_job, hs, chunk=100)
    cases = []
    for o in obs:
        if 'error' in o:
            ctx.violation({'h': o['h']}, 'make_reports_data raised %s' % o['error'])
        else:
            if o.get('print_mismatch'):
                ctx.violation({'h': o['h'], 'printed': True}, o['print_mismatch'])
            cases.append({k: o[k] for k in ('h', 'report', 'order')})
    # synthetic self-test: a report that lists a matching commit under a later build than the earliest one
    hsyn = {'n': 3, 'parents': [[], [1], [2]], 'match': [True, False, False], 'tagged': [False, True, True], 'head': {'master': 3}}
    good = {'h': hsyn, 'report': {'master': [{'kind': 'build', 'commit': 2, 'listed': [1]}]}, 'order': ['master']}
    bad = {'h': hsyn, 'report': {'master': [{'kind': 'build', 'commit': 3, 'listed': [1]}]}, 'order': ['master']}
    allc = cases + [good, bad]
    verd = judge(ctx, allc)
    n = len(cases)
    ctx.selftest(verd[n + 1]['master'][0] == 'OK' and verd[n + 2]['master'][0] == 'BAD', 'GHistJudge self-test failed')
    nbr = 0
    for i, c in enumerate(cases):
        v = verd[i + 1]
        if v['__order__'][0] != 'ORDER-OK':
            ctx.violation({'h': c['h']}, 'branches are reported in the order %s' % c['order'])
        for b, (res, cls) in v.items():
            if b == '__order__':
                continue
            nbr += 1
            if res == 'BAD':
                tags = ['ghist.head_inside_lower_branch'] if cls == 'head-inside-lower' else []
                ctx.violation({'h': c['h'], 'branch': b},
                              'branch %s of history %s: report %s is not accepted by the report relation' % (
                                  b, json.dumps(c['h']), json.dumps(c['report'].get(b, []))), tags)
    # branch order on generated names
    r = ctx.tlc('ghist/BranchOrder.tla', 'SPECIFICATION Spec\nCHECK_DEADLOCK FALSE\nCONSTANTS\n  MaxChunks = 2\n  NNames = %d\n  Emit = TRUE\n'
                'INVARIANT StrictTotal\n' % (2 if ctx.quick else 3), workers=16, timeout=3000, heap='12g')
    bo = [c for c in r.printed if isinstance(c, dict)]
    if len(bo) < 1000:
        raise Machinery('BranchOrder emitted %d cases' % len(bo))
    for (c, k), prob in zip([(c, k) for k, c in enumerate(bo)], pmap(branch_order_case, [(c, k) for k, c in enumerate(bo)], chunk=500)):
        if prob:
            ctx.violation({'branch_order': c, 'k': k}, prob)
    ctx.extra['branch_name_sets'] = len(bo)
    ctx.traces = n + len(bo)
    ctx.exhaustive = False
    ctx.extra['histories_exhaustive'] = n_exh
    ctx.extra['histories_simulated'] = len(sim)
    ctx.extra['branch_reports_judged'] = nbr
    for c in (cases[0], cases[n_exh // 2], cases[-1]):
        ctx.sample({'history': c['h'], 'report': c['report']})


def replay(ctx, case):
    if 'branch_order' in case:
        return branch_order_case((case['branch_order'], case['k']))
    o = _job(case['h'])
    if 'error' in o:
        return o['error']
    if case.get('printed'):
        return o.get('print_mismatch')
    o = {k: o[k] for k in ('h', 'report', 'order')}
    v = judge(ctx, [o])[1]
    if v['__order__'][0] != 'ORDER-OK':
        return 'branch order %s' % o['order']
    for b, (res, cls) in v.items():
        if b != '__order__' and res == 'BAD' and (case.get('branch') in (None, b)):
            return 'branch %s report %s rejected' % (b, o['report'].get(b))
    return None
