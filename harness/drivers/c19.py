"""C19 - command options are inherited exactly along the declared command graph.

specs/cli/ArgGraph.tla         builder of all declaration lists + I-spec of the registration
                               loop + A-spec Accepts; TLC: dep = Descendants, has = Accepts
specs/cli/ArgGraphAsCoded.tla  the original asserting loop, refuted by TLC on diamonds
Every graph TLC emits is declared on a real ArgParser and every (command, option) pair parsed.
"""
import contextlib
import io
import json
import os
import sys

from vcheck import Machinery, pmap


def _cfg(maxcmd, emit):
    return ('SPECIFICATION Spec\nCHECK_DEADLOCK FALSE\nCONSTANTS\n  MaxCmd = %d\n  Emit = %s\n'
            'INVARIANT DepIsDescendants\nINVARIANT HasIsAccepts\nINVARIANT PartialHas\n' % (
                maxcmd, 'TRUE' if emit else 'FALSE'))


SCHEMES = [('s%d', 'c%d'), ('set%d', 'cmd%d'), ('o%dx', 'k%dx'), ('%ds', '%dc'), ('opt-%d', 'run-%d'), ('S%d', 'C%d'),
           ('zz%d', 'aa%d'), ('%d_', '_%d')]


def _names(case, scheme):
    fi, fc = SCHEMES[scheme]
    return [(fi if case['internal'][i] else fc) % (i + 1) for i in range(len(case['parents']))]


def _orders(case, scheme):
    """iteration order of the parents sets (built the way the constructor builds them) of the multi-parent parsers"""
    names = _names(case, scheme)
    out = []
    for ps in case['parents']:
        if len(ps) > 1:
            st = {pp for p in ','.join(names[p - 1] for p in ps).split(',') if (pp := p.strip())}
            out.append(tuple(names.index(x) for x in st))
    return out


def alt_scheme(case):
    """a naming scheme under which as many parents sets as possible are iterated in another order than under scheme 0
    (the constructor walks a set of parent names: the order depends on the names); None when nothing differs"""
    base = _orders(case, 0)
    if not base:
        return None
    best, bestn = None, 0
    for sch in range(1, len(SCHEMES)):
        k = sum(1 for a, b in zip(base, _orders(case, sch)) if a != b)
        if k > bestn:
            best, bestn = sch, k
    return best


def _build(case, scheme=0):
    from ak import cli_tools
    n = len(case['parents'])
    names = _names(case, scheme)
    cmds = []
    for i in range(n):
        decl = ('!' if case['internal'][i] else '') + names[i]
        ps = [names[p - 1] for p in case['parents'][i]]
        if ps:
            decl += ':' + ','.join(ps)
        cmds.append((decl, 'help %d' % i))
    if case.get('explicit_default'):
        parser = cli_tools.ArgParser(commands=cmds, default_command=names[case['default'] - 1], _no_log_file=True)
    else:
        parser = cli_tools.ArgParser(commands=cmds, _no_log_file=True)
    return parser, names, cmds


def _parse(parser, argv, from_sys_argv=False):
    """-> ('ok', namespace) | ('exit', code) | ('exc', name); from_sys_argv: parse_args() without arguments"""
    err = io.StringIO()
    old_argv = sys.argv
    try:
        with contextlib.redirect_stderr(err), contextlib.redirect_stdout(err):
            if from_sys_argv:
                sys.argv = ['prog'] + list(argv)
                ns = parser.parse_args()
            else:
                ns = parser.parse_args(list(argv))
        return 'ok', ns
    except SystemExit as e:
        return 'exit', e.code
    except Exception as e:
        return 'exc', type(e).__name__ + ': ' + str(e)[:100]
    finally:
        sys.argv = old_argv


def check_case(case, scheme=0):
    """Replay one declaration list on the real ArgParser.  Returns (violations, drift, nparses);
    violations = [(what, tags, argv)]"""
    viol, drift = [], []
    n = len(case['parents'])
    diamond = _has_diamond(case)
    try:
        parser, names, cmds = _build(case, scheme)
    except AssertionError as e:
        return [('ArgParser(commands=...) raised AssertionError(%s) for an acyclic declaration' % str(e)[:60],
                 ['cli.diamond_assertion'] if diamond else [], None)], [], 0
    except Exception as e:
        return [('ArgParser(commands=...) raised %s' % type(e).__name__, [], None)], [], 0
    try:
        for i in range(n):
            parser.get_cmd_parser(names[i]).add_argument('--o%d' % (i + 1), action='store_true')
            # two more option strings of the same parser which share one destination
            parser.get_cmd_parser(names[i]).add_argument('--y%d' % (i + 1), dest='f%d' % (i + 1), action='store_true', default=None)
            parser.get_cmd_parser(names[i]).add_argument('--n%d' % (i + 1), dest='f%d' % (i + 1), action='store_false', default=None)
        parser.add_argument('--glob', action='store_true')
        # a positional for the default command, so that free words are legal arguments
        dflt = names[case['default'] - 1]
        parser.get_cmd_parser(dflt).add_argument('items', nargs='*')
        parser.get_cmd_parser(dflt).add_argument('--tag')
    except Exception as e:
        return [('adding options raised %s: %s' % (type(e).__name__, str(e)[:80]), [], None)], [], 0
    # I-spec binding: _dependent_parsers of every parser
    for i in range(n):
        try:
            real = sorted(parser.command_parsers[names[i]]._dependent_parsers)
        except Exception:
            break                      # the implementation keeps this differently: nothing to compare the I-spec with
        want = sorted(names[d - 1] for d in case['dep'][i])
        if real != want:
            drift.append('dependents of %s: real %s, I-spec %s' % (names[i], real, want))
    np_ = 0
    real_cmds = [i for i in range(n) if not case['internal'][i]]
    for c in real_cmds:
        for o in range(n):
            want = (o + 1) in case['accepts'][c]
            r, ns = _parse(parser, [names[c], '--o%d' % (o + 1)])
            np_ += 1
            got = r == 'ok' and getattr(ns, 'o%d' % (o + 1), None) is True and ns.command == names[c]
            if r == 'exc' or got != want:
                viol.append(('%s: command %s %s option of %s (%s), declared graph says %s' % (
                    cmds, names[c], 'accepts' if got else 'rejects', names[o], r if r != 'ok' else 'ok',
                    'accept' if want else 'reject'), [], [names[c], '--o%d' % (o + 1)]))
            for opt, val in (('--y%d' % (o + 1), True), ('--n%d' % (o + 1), False)):
                r, ns = _parse(parser, [names[c], opt])
                np_ += 1
                got = r == 'ok' and getattr(ns, 'f%d' % (o + 1), None) is val and ns.command == names[c]
                if r == 'exc' or got != want:
                    viol.append(('%s: command %s %s option %s of %s (%s), declared graph says %s' % (
                        cmds, names[c], 'accepts' if got else 'rejects', opt, names[o], r if r != 'ok' else 'ok',
                        'accept' if want else 'reject'), [], [names[c], opt]))
        for argv in (['--glob'], ['--color'], ['--color=never'], ['-v'], ['--no-color'], ['-vv', '--glob']):
            r, ns = _parse(parser, [names[c]] + argv)
            np_ += 1
            if r != 'ok' or ns.command != names[c]:
                viol.append(('%s: command %s rejects common option %s (%s)' % (cmds, names[c], argv, ns), [],
                             [names[c]] + argv))
    # default command: argv not starting with a command name
    d = case['default'] - 1
    dname = names[d]
    for o in range(n):
        want = (o + 1) in case['accepts'][d]
        r, ns = _parse(parser, ['--o%d' % (o + 1)])
        np_ += 1
        got = r == 'ok' and ns.command == dname and getattr(ns, 'o%d' % (o + 1), None) is True
        if r == 'exc' or got != want:
            viol.append(('%s: argv [--o%d] without command: %s, expected %s by default command %s' % (
                cmds, o + 1, r, 'accepted' if want else 'rejected', dname), [], ['--o%d' % (o + 1)]))
    free = [['word'], [], ['--glob', 'word'], ['-v'], ['help'], ['h', 'word'], ['--', 'word'], ['-']]
    for i in range(n):
        if case['internal'][i]:
            free.append([names[i]])            # the name of an option set is not a command name
            free.append([names[i], 'word'])
    tagged = []
    for i in range(n):
        # a command / option-set name that is not the first argument is an ordinary word or option value
        free.append(['--glob', names[i]])
        free.append(['-v', names[i], 'word'])
        tagged.append(names[i])
    for argv in free + [['--tag', x] for x in tagged]:
        r, ns = _parse(parser, argv, from_sys_argv=(len(argv) % 2 == 1))     # explicit list / taken from sys.argv
        np_ += 1
        if argv and argv[0] == '--tag':
            words = []
            good = r == 'ok' and ns.command == dname and ns.tag == argv[1] and list(ns.items) == []
        else:
            words = [a for a in argv if not a.startswith('-') or a == '-']       # a lone '-' is a positional word
            good = r == 'ok' and ns.command == dname and list(ns.items) == words
        if not good:
            tags = ['cli.internal_name_as_first_word'] if (r == 'exit' and argv and argv[0] in names and
                                                           case['internal'][names.index(argv[0])]) else []
            viol.append(('%s: argv %s does not start with a command name but is not parsed as default '
                         'command %s: %s %s' % (cmds, argv, dname, r, ns), tags, argv))
    return viol, drift, np_


def _has_diamond(case):
    n = len(case['parents'])
    # number of distinct paths from c to an ancestor > 1
    paths = [dict() for _ in range(n)]
    for c in range(n):
        for p in case['parents'][c]:
            paths[c][p - 1] = paths[c].get(p - 1, 0) + 1
            for a, k in paths[p - 1].items():
                paths[c][a] = paths[c].get(a, 0) + k
    return any(k > 1 for d in paths for k in d.values())


def _job(case):
    viol, drift, np_ = check_case(case)
    viol = [v + (0,) for v in viol]
    # the default command named explicitly: the LAST real command instead of the first one
    real = [i + 1 for i in range(len(case['parents'])) if not case['internal'][i]]
    if len(real) > 1:
        c2 = dict(case, default=real[-1], explicit_default=True)
        v2, d2, n2 = check_case(c2)
        viol += [(w + ' [default_command=%s given explicitly]' % _names(case, 0)[real[-1] - 1], t, a, 'dflt') for w, t, a in v2]
        np_ += n2
    alt = alt_scheme(case)
    if alt is not None:
        v2, d2, n2 = check_case(case, alt)
        viol += [v + (alt,) for v in v2]
        drift += d2
        np_ += n2
    return viol, drift, np_


def run(ctx):
    ctx.assumptions += [
        'family: three option strings per parser, two of them sharing a destination (no two ancestors define the same option string), at least '
        'one real command, default command = first real command and it takes free positional words',
        'argparse itself is trusted',
    ]
    maxn = 4 if ctx.quick else 5
    cases = []
    for k in range(1, maxn + 1):
        r = ctx.tlc('cli/ArgGraph.tla', _cfg(k, True), workers=1, timeout=1800)
        got = [c for c in r.printed if isinstance(c, dict)]
        expect = 1
        for i in range(k):
            expect *= 2 ** i * 2
        expect -= 2 ** (k * (k - 1) // 2)           # all-internal lists are excluded
        if len(got) != expect:
            raise Machinery('ArgGraph emitted %d cases for MaxCmd=%d, expected %d' % (len(got), k, expect))
        cases += got
    n_exh = len(cases)
    # six parsers: a random sample of the declaration lists (2^21 of them)
    r = ctx.tlc('cli/ArgGraph.tla', _cfg(6, True), workers=4, simulate=(300 if ctx.quick else 6000) // 4, depth=20, timeout=1800)
    seen = set()
    for c in r.printed:
        if isinstance(c, dict):
            key = json.dumps(c, sort_keys=True)
            if key not in seen:
                seen.add(key)
                cases.append(c)
    ctx.extra['graphs_of_6_parsers_sampled'] = len(seen)
    # design-level refutation of the original asserting loop (model regression guard)
    r = ctx.tlc('cli/ArgGraphAsCoded.tla',
                'SPECIFICATION Spec\nCHECK_DEADLOCK FALSE\nCONSTANTS\n  MaxCmd = 4\nINVARIANT NoAssertion\n',
                workers=4, expect_violation=True, count=False)
    if r.invariant_violated != 'NoAssertion':
        raise Machinery('ArgGraphAsCoded: TLC no longer refutes the asserting loop')
    ctx.extra['as_coded_loop_refuted_by_tlc'] = True
    results = pmap(_job, cases)
    nparse = 0
    ndiamond = 0
    for case, (viol, drift, np_) in zip(cases, results):
        nparse += np_
        ndiamond += 1 if _has_diamond(case) else 0
        for what, tags, argv, scheme in viol:
            ctx.violation({'graph': case, 'argv': argv, 'scheme': scheme}, what, tags)
        for d in drift[:1]:
            ctx.note_drift(d)
    # negative self-test: a corrupted expectation must be noticed by the replay
    bad = dict(cases[-1])
    bad['accepts'] = [list(a) for a in bad['accepts']]
    c0 = bad['default'] - 1
    bad['accepts'][c0] = [o for o in bad['accepts'][c0] if o != c0 + 1]
    v, _, _ = check_case(bad)
    ctx.selftest(bool(v), 'replay accepted a corrupted Accepts matrix')
    ctx.traces = len(cases)
    ctx.exhaustive = True
    ctx.extra['graphs'] = n_exh
    ctx.extra['graphs_with_diamond'] = ndiamond
    ctx.extra['parse_args_calls'] = nparse
    ctx.extra['max_commands'] = maxn
    for c in (cases[0], cases[len(cases) // 2], cases[-1]):
        ctx.sample(c)


def replay(ctx, case):
    g = case['graph']
    if case.get('scheme') == 'dflt':
        real = [i + 1 for i in range(len(g['parents'])) if not g['internal'][i]]
        g = dict(g, default=real[-1], explicit_default=True)
        viol, _, _ = check_case(g)
        viol = [(w + ' [default_command=%s given explicitly]' % _names(g, 0)[real[-1] - 1], t, a) for w, t, a in viol]
    else:
        viol, _, _ = check_case(g, case.get('scheme', 0))
    if case.get('argv') is None:
        return viol[0][0] if viol else None
    for what, tags, argv in viol:
        if argv == case['argv']:
            return what
    return None
