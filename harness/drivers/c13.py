"""C13 - a table's reported format string reproduces the table.

specs/ppobj/PPTableFmt.tla  life cycle of the format object (Construct, Print, SetSame, SetEmpty, SetCols,
                            SetLimits) with the shape str(table.fmt) must have; TLC: ShapeKeepsColumns,
                            LimitsOmittedOnlyWhenHarmless
Every TLC history is replayed on a real PPTable; after every action the round-trip equalities of the A-spec
are evaluated on real renderings (constructor and setter fed with str(table.fmt)).
"""
import copy
import json
import re

from vcheck import Machinery, pmap, guarded

_RECORDS6 = [('x', 1, 0, 'p'), ('longer text', 22, 1, 'qq'), ('', 333, 10, 'a longer one'), ('mid', 4, 1, ''), ('z', 5, 7, 'rrr'),
           ('zz', 66, 0, 's')]
RECORDS = _RECORDS6 + [('r%d' % i, i, (0, 1, 10, 7)[i % 4], 'v%d' % (i % 7)) for i in range(54)]
FIELDS = ['a', 'b', 'e', 'c(x)']


def _cfg(maxcols, maxact, small, emit, tiny=False):
    return ('SPECIFICATION Spec\nCHECK_DEADLOCK FALSE\nCONSTANTS\n  MaxCols = %d\n  MaxActions = %d\n  Small = %s\n  Emit = %s\n  Tiny = %s\n'
            'INVARIANT ShapeKeepsColumns\nINVARIANT LimitsOmittedOnlyWhenHarmless\n' % (
                maxcols, maxact, 'TRUE' if small else 'FALSE', 'TRUE' if emit else 'FALSE', 'TRUE' if tiny else 'FALSE'))


def col_str(c):
    s = c['f'] + ('/' + c['mod'] if c['mod'] else '') + ('!' if c['brk'] else '')
    return s + (':%d' % c['min'] if c['min'] == c['max'] else ':%d-%d' % (c['min'], c['max']))


def lim_str(l):
    return '*' if l[0] < 0 else '%d:%d' % (l[0], l[1])


def _ftypes():
    from ak.ppobj import PPEnumFieldType, FieldType
    # field c(x): a field type with its own width limits (4-10), which apply only where a column description gives none -
    # every column here gives its range explicitly (1-999, the limits of the general field type, among them)
    return {'e': PPEnumFieldType({0: 'Zero', 1: ('One', 'name_good'), 10: 'Ten'}), 'c(x)': FieldType(min_width=4, max_width=10)}


def _mk(fmt, nrec, limits=None):
    from ak.ppobj import PPTable
    if limits is not None:
        return PPTable(RECORDS[:nrec], fmt=fmt, fields=FIELDS, fields_types=_ftypes(), limits=limits)
    return PPTable(RECORDS[:nrec], fmt=fmt, fields=FIELDS, fields_types=_ftypes())


def _render(t):
    return t.ch_text(no_color=True).plain_text()


_COL = re.compile(r'^([a-z]+(?:\([a-z]+\))?)(?:/([a-z]+))?(!)?:(\d+)(?:-(\d+)(\(\d+\))?)?$')


def parse_shape(s):
    parts = s.split(';')
    cols = []
    for cs in (parts[0].split(',') if parts[0] else []):
        m = _COL.match(cs.strip())
        if not m:
            return None
        mn = int(m.group(4))
        cols.append({'f': m.group(1), 'mod': m.group(2) or '', 'brk': bool(m.group(3)), 'min': mn,
                     'max': int(m.group(5)) if m.group(5) else mn, 'annot': bool(m.group(6))})
    lim = parts[1] if len(parts) > 1 else ''
    if lim == '':
        l = {'k': 'omitted', 'n': 0, 'm': 0}
    elif lim == '*':
        l = {'k': 'star', 'n': 0, 'm': 0}
    else:
        a, b = lim.split(':')
        l = {'k': 'nm', 'n': int(a), 'm': int(b)}
    return {'cols': cols, 'limits': l}


def _checkpoint(t, nrec, where):
    """the A-spec equalities on real renderings; t itself is not printed"""
    s = str(t.fmt)
    tags = ['pptable.width_annotation'] if '(' in s else []
    ref = _render(copy.deepcopy(t))
    try:
        t2 = _mk(s, nrec)
        r2 = _render(t2)
    except Exception as e:
        return '%s: PPTable(records, fmt=%r) raised %s: %s' % (where, s, type(e).__name__, str(e)[:80]), tags
    if r2 != ref:
        return '%s: table constructed from its reported fmt %r renders differently:\n%s\n--- vs original ---\n%s' % (where, s, r2, ref), []
    twin = copy.deepcopy(t)
    try:
        twin.fmt = s
        r3 = _render(twin)
    except Exception as e:
        return '%s: table.fmt = %r raised %s: %s' % (where, s, type(e).__name__, str(e)[:80]), tags
    if r3 != ref:
        return '%s: after table.fmt = str(table.fmt) (%r) the rendering changed:\n%s\n--- vs ---\n%s' % (where, s, r3, ref), []
    return None, []


@guarded(lambda m: (m, None, []))
def replay_history(job):
    h, nrec = job
    hist = h['hist']
    t = None
    drift = None
    cols, limits, frozen, skipped, feasible = None, None, False, 'unknown', True
    for n, st in enumerate(hist):
        op = st['op']
        where = 'step %d (%s)' % (n + 1, op)
        try:
            if op == 'construct':
                cols, limits = st['cols'], st['limits']
                fmt = ','.join(col_str(c) for c in cols)
                if (limits[0] < 0) != (limits[1] < 0):
                    # half-open pair: only the constructor argument can express it
                    t = _mk(fmt, nrec, limits=tuple(None if x < 0 else x for x in limits))
                else:
                    fmt += ';' + lim_str(limits)
                    t = _mk(fmt, nrec)
            elif op == 'print':
                _render(t)
                frozen = True
                actual = 'yes' if t.fmt.any_lines_skipped else 'no'
                if actual != st['skipped']:
                    feasible = False        # the spec assumed the other outcome for this number of records
                skipped = actual
            elif op == 'setsame':
                t.fmt = str(t.fmt)
                frozen, skipped = False, 'unknown'
            elif op == 'setempty':
                before = _render(copy.deepcopy(t))
                t.fmt = st['s']
                after = _render(copy.deepcopy(t))
                if before != after:
                    return '%s: table.fmt = %r changed the rendering' % (where, st['s']), drift, []
                frozen, skipped = False, 'unknown'
            elif op == 'setcols':
                cols = st['cols']
                t.fmt = ','.join(col_str(c) for c in cols) + (';' if n % 2 else '')
                frozen, skipped = False, 'unknown'
            elif op == 'removecols':
                cols = [c for c in cols if c['f'] != st['f']]
                t.remove_columns([st['f']])
                frozen = False
            elif op == 'setlimits':
                limits = st['limits']
                t.fmt = ';' + lim_str(limits)
                frozen, skipped = False, 'unknown'
        except Exception as e:
            tags = ['pptable.width_annotation'] if (op == 'setsame' and '(' in str(t.fmt)) else []
            return '%s raised %s: %s' % (where, type(e).__name__, str(e)[:100]), drift, tags
        r, tags = _checkpoint(t, nrec, where)
        if r:
            return r, drift, tags
        if feasible and drift is None:
            got = parse_shape(str(t.fmt))
            want = {'cols': [dict(c, annot=(frozen and c['min'] != c['max'])) for c in cols],
                    'limits': ({'k': 'omitted', 'n': 0, 'm': 0} if skipped == 'no' else
                               ({'k': 'star', 'n': 0, 'm': 0} if min(limits) < 0 else {'k': 'nm', 'n': limits[0], 'm': limits[1]}))}
            if got != want:
                drift = '%s: str(table.fmt) = %r, I-spec shape %s' % (where, str(t.fmt), want)
    return None, drift, []


def run(ctx):
    ctx.assumptions += ['fields a (str), b (int), e (enum), c(x) (str, a name with parentheses); 6 fixed records, tables of 2, 4, 6 and 60 records; the constructor is '
                        'given the same fields / fields_types as the original table',
                        'rendering a deep copy is used to observe a table without printing the table itself']
    ctx.tlc('ppobj/PPTableFmt.tla', _cfg(1, 2, True, False), workers=16, timeout=3000)
    r = ctx.tlc('ppobj/PPTableFmt.tla', _cfg(1, 2, True, True), workers=16, timeout=3000)
    hists = [h for h in r.printed if isinstance(h, dict)]
    n_exh = len(hists)
    if n_exh < 1000:
        raise Machinery('PPTableFmt emitted %d histories' % n_exh)
    # simulation: TLC enumerates all successors of every visited state, so the pools stay small (2 columns)
    r = ctx.tlc('ppobj/PPTableFmt.tla', _cfg(2, 6, True, True), workers=8, simulate=(4000 if ctx.quick else 80000) // 8,
                depth=9, timeout=1200)
    sim = [h for h in r.printed if isinstance(h, dict)]
    hists += sim
    # all life cycles of 2 actions of two-column tables (plain ranged columns) incl. remove_columns
    r = ctx.tlc('ppobj/PPTableFmt.tla', _cfg(2, 2, True, True, tiny=True), workers=16, timeout=3000)
    tiny = [h for h in r.printed if isinstance(h, dict)]
    ctx.extra['histories_two_columns_exhaustive'] = len(tiny)
    hists += tiny
    # tables of 2, 4, 6 records, and of 60 (more body lines than the default limits 30:20 show)
    jobs = [(h, (2, 4, 6, 60)[k % 4] if k % 8 != 7 else 60) for k, h in enumerate(hists)]
    res = pmap(replay_history, jobs)
    ndrift = 0
    for job, (prob, drift, tags) in zip(jobs, res):
        if prob:
            ctx.violation({'history': job[0], 'nrec': job[1]}, prob, tags)
        if drift:
            ndrift += 1
            if ndrift <= 3:
                ctx.note_drift(drift)
    ctx.extra['histories_with_shape_drift'] = ndrift
    # negative self-test: a table whose reported format is tampered with must be noticed
    t = _mk('a:3,b:1-6;1:1', 6)
    _render(t)
    class Liar:
        def __init__(self, t):
            self.t = t
    import ak.ppobj as pp
    orig = pp.ReprColumn.to_fmt_str
    try:
        pp.ReprColumn.to_fmt_str = lambda self: orig(self).replace(':3', ':4')
        bad = _checkpoint(t, 6, 'selftest')[0]
    finally:
        pp.ReprColumn.to_fmt_str = orig
    ctx.selftest(bad is not None, 'checkpoint accepted a tampered format string')
    ctx.traces = len(hists)
    ctx.exhaustive = False
    ctx.extra['histories_exhaustive'] = n_exh
    ctx.extra['histories_simulated'] = len(sim)
    for h in (hists[0], hists[n_exh // 2], hists[-1]):
        ctx.sample(h['hist'])


def replay(ctx, case):
    return replay_history((case['history'], case['nrec']))[0]
