"""C10 - rendering is pure: colors never change layout and output has no memory.

specs/render/RenderPurity.tla  histories of NewConf / DropConf / SetGlobal / Render over a heap with address
                               re-use; I-spec of the palette and enum-cell caches; TLC: Pure, CacheCoherent
specs/render/RenderJudge.tla   trace acceptor for the recorded render events (memo seeded from fresh interpreters)
"""
import gc
import json
import os
import re
import subprocess
import sys
from concurrent.futures import ThreadPoolExecutor

import c10_objs
from vcheck import Machinery, pmap, REPO, HERE


def _cfg(naddr, nslots, maxact, purge, emit, kinds, invs=True):
    return ('SPECIFICATION Spec\nCHECK_DEADLOCK FALSE\nCONSTANTS\n  NAddr = %d\n  NSlots = %d\n  MaxActions = %d\n'
            '  Purge = %s\n  Emit = %s\n  Kinds = {%s}\n' % (naddr, nslots, maxact, 'TRUE' if purge else 'FALSE',
                                                             'TRUE' if emit else 'FALSE', ', '.join('"%s"' % k for k in kinds))
            + ('INVARIANT Pure\nINVARIANT CacheCoherent\n' if invs else ''))


def _ref_one(args):
    kind, content, effnc = args
    p = subprocess.run([sys.executable, '-B', os.path.join(HERE, 'c10_objs.py'), REPO, kind, str(content), '1' if effnc else '0'],
                       stdout=subprocess.PIPE, stderr=subprocess.PIPE, env=dict(os.environ, PYTHONPATH=HERE))
    if p.returncode:
        raise Machinery('reference run failed: %s' % p.stderr.decode()[-400:])
    return args, json.loads(p.stdout.decode())


def references():
    keys = [(k, c, nc) for k in c10_objs.KINDS for c in (1, 2) for nc in (False, True)]
    with ThreadPoolExecutor(12) as ex:
        return dict(ex.map(_ref_one, keys))


def _key(kind, content, effnc):
    return '%s|%d|%d' % (kind, content, 1 if effnc else 0)


def replay_history(hist):
    """-> list of render events (for the judge)"""
    from ak.color import set_global_colors_config
    set_global_colors_config(None)
    objs = c10_objs.Objects()
    slots, meta = {}, {}
    glob = None
    events = []
    for st in hist:
        op = st['op']
        if op == 'newconf':
            slots[st['slot']] = c10_objs.make_conf(st['content'], st['nc'])
            meta[st['slot']] = (st['content'], st['nc'])
        elif op == 'dropconf':
            del slots[st['slot']]
            gc.collect()
        elif op == 'setglobal':
            set_global_colors_config(slots[st['slot']])
            glob = meta[st['slot']]
        elif op == 'render':
            kind = st['kind']
            if st['via'] == 0:
                conf, (content, cnc) = None, glob
                if kind == 'help':
                    from ak.color import get_global_colors_config
                    conf = get_global_colors_config()
            else:
                conf, (content, cnc) = slots[st['via']], meta[st['via']]
            nocolor = st['nocolor']
            effnc = cnc if kind == 'help' else (nocolor or cnc)
            try:
                whole = c10_objs.render(objs, kind, conf, nocolor, 'whole')
                lines = c10_objs.render_linewise(objs, kind, conf, nocolor, whole)
            except Exception as e:
                events.append({'key': _key(kind, content, effnc), 'nckey': _key(kind, content, True), 'out': 'EXC', 'lines': 'EXC',
                               'stripped': 'EXC:%s' % type(e).__name__, 'esc': False})
                continue
            cw, badw = c10_objs.painted(whole)
            cl, badl = c10_objs.painted(lines)
            plain = [(c, sgr_default()) for c, _ in cw]
            events.append({'key': _key(kind, content, effnc), 'nckey': _key(kind, content, True),
                           'out': c10_objs.digest(cw) if not badw else 'BAD-SGR', 'lines': c10_objs.digest(cl) if not badl else 'BAD-SGR',
                           'stripped': c10_objs.digest(plain), 'esc': bool(effnc and '\x1b' in whole)})
    set_global_colors_config(None)
    return events


def sgr_default():
    import sgr
    return sgr.DEFAULT


def run(ctx):
    ctx.assumptions += ['printable objects: pretty-printed value, two tables sharing one enum field type (wide and narrow '
                        'columns, all modifiers), record formatter, h-doc help text, an object whose rendering starts with '
                        'an empty line, the git history report of two mock repositories',
                        'line-wise consumption: every line turned into text at once, all lines collected first, and interleaved with a second rendering of the same object under another configuration (started before / after)',
                        'colour equality is compared on painted cells (character + terminal state), not on raw escape strings',
                        'reference outputs come from one fresh interpreter per (object, configuration content, no_color)']
    kinds = c10_objs.KINDS
    # 1. the design: cache keyed by bare identity is refuted, weak keys are pure
    r = ctx.tlc('render/RenderPurity.tla', _cfg(4, 2, 5, False, False, ['table']), workers=8, expect_violation=True, count=False, timeout=1200)
    if r.invariant_violated != 'Pure':
        raise Machinery('RenderPurity: identity-keyed cache is no longer refuted by TLC')
    ctx.extra['identity_keyed_cache_refuted_by_tlc'] = True
    ctx.tlc('render/RenderPurity.tla', _cfg(4, 2, 5 if ctx.quick else 6, True, False, ['table']), workers=16, timeout=3000)
    # 2. histories: exhaustive short ones on one kind, simulated long ones over all kinds
    r = ctx.tlc('render/RenderPurity.tla', _cfg(4, 2, 4, True, True, ['table'], invs=False), workers=16, timeout=3000)
    hists = [h for h in r.printed if isinstance(h, list)]
    n_exh = len(hists)
    r = ctx.tlc('render/RenderPurity.tla', _cfg(6, 3, 12, True, True, kinds, invs=False), workers=8,
                simulate=(1600 if ctx.quick else 30000) // 8, depth=14, timeout=3000)
    sim = [h for h in r.printed if isinstance(h, list)]
    hists += sim
    if n_exh < 300:
        raise Machinery('RenderPurity emitted %d histories' % n_exh)
    refs = references()
    ref = {_key(*k): v['digest'] for k, v in refs.items()}
    for k, v in refs.items():
        if v['bad']:
            ctx.violation({'kind': k[0], 'content': k[1], 'nc': k[2], 'history': []}, 'malformed escape sequences in the output of %s' % (k,))
        if 'MEMORY:' in v.get('text', ''):
            ctx.violation({'kind': k[0], 'content': k[1], 'nc': k[2], 'history': []},
                          'object %s: %s' % (k[0], v['text'][v['text'].index('MEMORY:'):]))
        if k[2] and v['esc']:
            ctx.violation({'kind': k[0], 'content': k[1], 'nc': True, 'history': []}, 'no_color output of %s contains an escape character' % k[0])
    # the judge compares the stripped coloured output with the no_color reference: digest of (char, default state)
    traces = pmap(replay_history, hists, chunk=20)
    synthetic_bad = {'ref': ref, 'ev': [{'key': _key('table', 1, False), 'nckey': _key('table', 1, True), 'out': 'deadbeef',
                                        'lines': 'deadbeef', 'stripped': ref[_key('table', 1, True)], 'esc': False}]}
    cases = [{'ref': ref, 'ev': ev} for ev in traces] + [synthetic_bad]
    path = os.path.join(ctx.tmp, 'c10.ndjson')
    with open(path, 'w') as f:
        for c in cases:
            f.write(json.dumps(c) + '\n')
    r = ctx.tlc('render/RenderJudge.tla', 'SPECIFICATION Spec\nCHECK_DEADLOCK FALSE\n', env={'CASES': path}, workers=16, timeout=3000)
    verd = {}
    for ln in r.raw_printed:
        m = re.match(r'<<"(ACCEPT|REJECT)", (\d+)(?:, "([^"]*)", (\d+))?>>', ln)
        if m:
            verd[int(m.group(2))] = (m.group(1), m.group(3), m.group(4))
    if len(verd) != len(cases):
        raise Machinery('RenderJudge gave %d verdicts for %d traces' % (len(verd), len(cases)))
    ctx.selftest(verd[len(cases)][0] == 'REJECT', 'RenderJudge accepted a corrupted event')
    nev = 0
    for i, h in enumerate(hists):
        nev += len(traces[i])
        if verd[i + 1][0] == 'REJECT':
            k = int(verd[i + 1][2])
            ev = traces[i][k - 1]
            tags = []
            ctx.violation({'history': h}, 'render event %d (%s) rejected: %s; history %s' % (
                k, ev['key'], verd[i + 1][1], [(s['op'], s.get('kind'), s.get('slot', s.get('via')), s.get('content')) for s in h]), tags)
    # growth item: doc string parsing behind the help text (DRIFT only, see drivers/hdocstr.py)
    from drivers import hdocstr
    hdocstr.run(ctx)
    ctx.traces = len(hists)
    ctx.exhaustive = False
    ctx.extra['histories_exhaustive'] = n_exh
    ctx.extra['histories_simulated'] = len(sim)
    ctx.extra['render_events'] = nev
    ctx.extra['reference_keys'] = len(ref)
    for h in (hists[3], hists[-1]):
        ctx.sample([{k: v for k, v in s.items()} for s in h])


def replay(ctx, case):
    if not case.get('history'):
        return None
    refs = references()
    ref = {_key(*k): v['digest'] for k, v in refs.items()}
    for ev in replay_history(case['history']):
        if ev['out'] != ref.get(ev['key']):
            return 'output of %s depends on history' % ev['key']
        if ev['lines'] != ev['out']:
            return 'line by line differs from whole for %s' % ev['key']
        if ev['stripped'] != ref.get(ev['nckey']):
            return 'colours change the text of %s' % ev['key']
        if ev['esc']:
            return 'escape in no_color output'
    return None
