"""C16 - request ids are unique per connection under concurrent use.

specs/http/ReqId.tla       threads x requests at the atomicity of the shared-memory accesses; TLC: Unique,
                           GapFree, CounterCounts, MutualExclusion, AllDone (all interleavings)
specs/http/ReqIdJudge.tla  trace validation of real executions (A: ids that reached the opener; I: events)
harness/sched.py           deterministic scheduler: ALL schedules of the real code at shared-access granularity
"""
import json
import os
import re

import sched
from vcheck import Machinery

_ID = re.compile(r'^([0-9a-f]{4})(\d{4})-0000-0000-0000-(\d{12})$')

CONFIGS = [
    # (threads, requests per thread, [(t, r) with caller supplied id], [(t, r) whose body cannot be serialised],
    #  all requests pass one and the same caller headers dict)
    (2, 1, [], [], False),
    (2, 2, [], [], False),
    (2, 2, [(1, 2), (2, 1)], [], False),
    (3, 1, [], [], False),
    (2, 1, [(1, 1)], [], False),
    (2, 2, [], [(1, 1)], False),
    (2, 2, [], [], True),
    (2, 2, [(2, 2)], [(2, 1)], True),
    (2, 2, [(1, 1)], [], False, 9999),       # a connection that has served 9999 requests before
    # refused calls (params given as a str: refused before an id is generated) and a transport that drops the
    # connection once for a request (the request was issued with its id; nothing may be sent again on its own)
    (2, 2, [], [], False, 0, [(1, 2), (2, 1)], [(1, 1)]),
]
# thorough tier only: three threads x two requests (the number of schedules is cut at the limit: not exhaustive)
THOROUGH_CONFIGS = [
    (3, 2, [], [], False),
    (3, 2, [(1, 1)], [(2, 2)], True),
]
VERBS = ('get', 'post', 'put', 'delete', 'patch')


class _Unserialisable:
    pass


def _own_request(conn_http, base, c, verb_name, t, r):
    """a request that carries a caller supplied id, in one of four ways"""
    form = (t + 2 * r) % 4
    if form == 0:
        mine = 'mine-%d-%d' % (t, r)
        getattr(c, verb_name)('/x', headers={'X-Request-ID': mine, 'X-Mine': mine})
    elif form == 1:
        getattr(c, verb_name)('/x', headers={'X-Request-ID': 0, 'X-Mine': 'int0'})          # the caller's id is the number 0
    elif form == 2:
        getattr(c, verb_name)('/x', headers={'X-Request-ID': '', 'X-Mine': 'empty'})        # an empty id
    else:
        # the id comes from a request adapter of a derived connection (trace id propagation)
        class Trace(conn_http.RequestAdapter):
            def process_req_args(self, req_args):
                req_args.headers['X-Request-ID'] = 'mine-adapter'
                req_args.headers['X-Mine'] = 'mine-adapter'
        getattr(conn_http.HttpConn(c, adapters=Trace()), verb_name)('/x')


class _Resp:
    code = 200
    _method = 'GET'

    def read(self):
        return b''

    def getheaders(self):
        return []

    def __enter__(self):
        return self

    def __exit__(self, *a):
        return False


class _Transport:
    """everything goes through the public surface of urllib: OpenerDirector.open hands the prepared request to the
    recorder of the current execution; build_opener returns a bare OpenerDirector (the default one loads the system
    certificate store, about 30 ms per connection)"""
    current = None

    def __enter__(self):
        import urllib.request as ur
        self.ur = ur
        self.saved = (ur.build_opener, ur.OpenerDirector.open)
        ur.build_opener = lambda *handlers: ur.OpenerDirector()
        ur.OpenerDirector.open = lambda od, request, *a, **k: _Transport.current(request)
        return self

    def __exit__(self, *a):
        self.ur.build_opener, self.ur.OpenerDirector.open = self.saved
        _Transport.current = None
        return False


def _reach(root, mod_name, depth=4):
    """objects of classes defined in module `mod_name` that are reachable from root (attributes, slots, containers)"""
    out, seen, todo = [], set(), [(root, 0)]
    while todo:
        o, d = todo.pop()
        if id(o) in seen:
            continue
        seen.add(id(o))
        mine = getattr(type(o), '__module__', None) == mod_name
        if mine:
            out.append(o)
        if d >= depth:
            continue
        kids = []
        if isinstance(o, (list, tuple, set, frozenset)):
            kids = list(o)
        elif isinstance(o, dict):
            kids = list(o.values())
        elif mine:
            names = list(getattr(o, '__dict__', {}))
            for c in type(o).__mro__:
                sl = c.__dict__.get('__slots__', ())
                names += [sl] if isinstance(sl, str) else list(sl)
            for n in names:
                try:
                    kids.append(getattr(o, n))
                except Exception:
                    pass
        todo += [(k, d + 1) for k in kids]
    return out


def _shared_state(conn_http, base, derived=None):
    """the objects (of classes of ak.conn_http) that a connection and connections derived from it have in common, the
    connections themselves and request adapters left out: the underlying connection and what hangs below it.  When the
    derived connections share nothing with it (that is a defect the executions will show) the objects below the base
    connection are taken."""
    mod = conn_http.__name__
    below = [x for x in _reach(base, mod) if x is not base and not isinstance(x, conn_http.RequestAdapter)]
    out = []
    for d in (conn_http.BAuthConn(base, 'u', 'p'), conn_http.HttpConn(base)):
        below_d = {id(x) for x in _reach(d, mod)}
        for x in below:
            if id(x) in below_d and x is not d and not any(x is y for y in out):
                out.append(x)
    return out or below


_LOCK_TYPES = None


def _static_locks(conn_http):
    """locks created when the module was imported (module globals, class attributes): [(owner, name)]"""
    global _LOCK_TYPES
    import threading as _t
    import inspect
    if _LOCK_TYPES is None:
        _LOCK_TYPES = (type(_t.Lock()), type(_t.RLock()))
    found = []
    owners = [conn_http] + [v for v in vars(conn_http).values() if inspect.isclass(v) and v.__module__ == conn_http.__name__]
    for ow in owners:
        for n, v in list(vars(ow).items()):
            if isinstance(v, _LOCK_TYPES) or isinstance(v, sched._Shim):
                found.append((ow, n))
    return found


def _mc_cfg(nt, reqs, start=0):
    return ('SPECIFICATION Spec\nCHECK_DEADLOCK FALSE\nCONSTANTS\n  Threads = {%s}\n  Reqs = %d\n'
            '  OwnChoices <- OwnChoicesStd\n  FailChoices <- FailChoicesStd\n  RejectChoices <- RejectChoicesStd\n  Start = %d\nINVARIANT Unique\nINVARIANT GapFree\nINVARIANT CounterCounts\n'
            'INVARIANT MutualExclusion\nPROPERTY AllDone\n' % (', '.join(str(i + 1) for i in range(nt)), reqs, start))


def run(ctx):
    from ak import conn_http
    ctx.assumptions += [
        'interleavings are enumerated at the granularity of accesses to shared mutable attributes of the '
        'underlying connection object (attribute names that some method other than __init__ stores to, found '
        'in the bytecode of the working tree) and of lock acquisition; all other instructions are thread local, '
        'so this covers all bytecode-level interleavings up to commutation',
        'CPython 3.12 sys.monitoring INSTRUCTION events; threading.Lock inside ak.conn_http is replaced by a cooperative lock (also for locks created lazily)',
    ]
    # 1. the design: all interleavings
    ctx.tlc('http/ReqId.tla', _mc_cfg(2, 2), workers=8, timeout=1800)
    ctx.tlc('http/ReqId.tla', _mc_cfg(2, 2, 9999), workers=8, timeout=1800)
    ctx.tlc('http/ReqId.tla', _mc_cfg(3, 1 if ctx.quick else 2), workers=16, timeout=3600)
    # 1b. ReqId implements the abstraction ReqIdInd (TLC, refinement mapping numbers <- Numbers, dup <- ~Unique) ...
    for nt, reqs in (((2, 2),) if ctx.quick else ((2, 2), (3, 2))):       # (the standard own / failing choices name second requests)
        ctx.tlc('http/ReqIdRef.tla', _mc_cfg(nt, reqs).replace('PROPERTY AllDone\n', 'PROPERTY Refines\nINVARIANT AbsSafety\nINVARIANT AbsIndInv\n'),
                workers=8, timeout=1800)
    # ... for which Apalache proves an inductive invariant: safety in every reachable state of 3 threads x 2 requests with
    # any sets of caller supplied / failing requests, not only up to the depth TLC explores (thorough tier)
    if not ctx.quick:
        import apalache
        mod = os.path.join(os.path.dirname(os.path.dirname(os.path.abspath(sched.__file__))), 'specs', 'http', 'ReqIdInd.tla')
        steps = []
        try:
            for init, inv, length in (('Init', 'IndInv', 0), ('IndInit', 'IndInv', 1), ('IndInit', 'Safety', 0)):
                ok, secs, tail = apalache.check(mod, init, inv, length, ctx.tmp)
                steps.append({'init': init, 'inv': inv, 'length': length, 'ok': ok, 'wall_s': round(secs, 1)})
                if not ok:
                    raise Machinery('Apalache refutes the inductive invariant of ReqIdInd (%s => %s):\n%s' % (init, inv, tail))
        except apalache.ApalacheError as e:
            raise Machinery(str(e))
        ctx.extra['apalache_inductive_invariant'] = steps
    # 2. all schedules of the real code, each execution recorded
    transport = _Transport()
    transport.__enter__()
    holder = {}
    # which objects carry the state that connections derived from one another share is found out on a probe pair
    probe = conn_http.HttpConn('http://h:1')
    shared_classes = sorted({type(o) for o in _shared_state(conn_http, probe)}, key=lambda c: c.__name__)
    if not shared_classes:
        raise Machinery('a connection and a connection derived from it share no object of ak.conn_http')
    sch = sched.Scheduler(shared_classes, lambda: holder.get('objs', []))
    ctx.extra['shared_state_classes'] = [c.__name__ for c in shared_classes]
    ctx.extra['shared_attribute_names'] = sorted(sch.names)
    ctx.extra['yield_points'] = sum(len(v) for v in sch.codes.values())
    if not sch.names:
        ctx.note_drift('no attribute of the shared objects is stored to outside __init__: only lock operations are scheduling points')
    sched.install(sch)
    real_threading = getattr(conn_http, 'threading', None)     # (a module that uses no locks does not import it)
    if real_threading is not None:
        conn_http.threading = sched.ThreadingShim(sch)       # locks created by the module (also lazily) are cooperative
    static_locks = _static_locks(conn_http)              # locks created at import time: replaced by cooperative ones per execution
    static_saved = [(ow, n, getattr(ow, n)) for ow, n in static_locks]
    groups = {}
    total = 0
    limit = 12000 if ctx.quick else 200000
    try:
        for cfg in CONFIGS + ([] if ctx.quick else THOROUGH_CONFIGS):
            nt, reqs, own, fail, shared = cfg[:5]
            if cfg in THOROUGH_CONFIGS:
                limit = 20000
            start = cfg[5] if len(cfg) > 5 else 0
            rej = cfg[6] if len(cfg) > 6 else []
            drop = cfg[7] if len(cfg) > 7 else []

            def make_bodies(nt=nt, reqs=reqs, own=own, fail=fail, shared=shared, start=start, rej=rej, drop=drop):
                for ow, n in static_locks:
                    setattr(ow, n, sched._Shim(sch))
                base = conn_http.HttpConn('http://h:1')
                holder['objs'] = _shared_state(conn_http, base)
                part = []                 # the connection part of the generated ids: whatever the first one shows
                if start:
                    # the state of a connection that has served `start` requests
                    cnt = [o for o in holder['objs'] if isinstance(getattr(o, '_cur_req_id', None), int)]
                    if len(cnt) != 1:
                        return None, None, 'skip'
                    cnt[0]._cur_req_id = start

                class Op:
                    def open(self, request):
                        h = {k.lower(): v for k, v in request.header_items()}
                        rid = h.get('x-request-id')
                        tid = sch._me()
                        if rid is None:
                            v = -3
                        elif 'x-mine' in h:
                            want = {'int0': '0', 'empty': ''}.get(h['x-mine'], h['x-mine'])
                            v = -1 if str(rid) == want else -2
                        else:
                            m = _ID.match(str(rid))
                            if m and not part:
                                part.append(m.group(1))
                            v = int(m.group(3)) if (m and m.group(1) == part[0] and int(m.group(2)) == int(m.group(3)) % 10000) else -3
                        sch.trace.append({'t': tid, 'k': 'send', 'v': v})
                        key = (tid, cur.get(tid))
                        if key in dropped:
                            dropped.discard(key)          # the transport loses the connection once for this request
                            import http.client
                            raise http.client.RemoteDisconnected('Remote end closed connection without response')
                        return _Resp()
                _Transport.current = Op().open
                cur = {}
                dropped = set(tuple(x) for x in drop)
                conns = [base, conn_http.ClientAuthConn(base, 'cname', 'u', 'p'), conn_http.HttpConn(base),
                         conn_http.BAuthConn(base, 'u', 'p'), conn_http.TokenAuthConn(conn_http.HttpConn(base), 'tok', 'descr')]
                import urllib.request
                bodies = []
                caller_headers = {'Accept': 'text/plain'} if shared else None     # one dict object for all requests
                for t in range(1, nt + 1):
                    def body(t=t):
                        c = conns[(t - 1) % len(conns)]
                        for r in range(1, reqs + 1):
                            cur[t] = r
                            verb = getattr(c, VERBS[(t + r) % 5])
                            if (t, r) in [tuple(x) for x in rej]:
                                try:
                                    verb('/x', params='limit=10&offset=20')       # a str is not a mapping: TypeError
                                except TypeError:
                                    sch.trace.append({'t': t, 'k': 'reject', 'v': 0})
                            elif (t, r) in [tuple(x) for x in drop]:
                                try:
                                    verb('/x', headers=caller_headers)
                                except Exception:
                                    pass
                            elif (t, r) in [tuple(x) for x in own]:
                                _own_request(conn_http, base, c, VERBS[(t + r) % 5], t, r)
                            elif (t, r) in [tuple(x) for x in fail]:
                                try:
                                    c.post('/x', data={'k': _Unserialisable()}, headers=caller_headers)
                                except TypeError:
                                    sch.trace.append({'t': t, 'k': 'fail', 'v': 0})
                            else:
                                verb('/x', headers=caller_headers)
                    bodies.append(body)

                def finish(trace, chosen):
                    return {'threads': nt, 'reqs': reqs, 'own': [list(x) for x in own], 'fail': [list(x) for x in fail],
                            'shared_headers': shared, 'start': start, 'rej': [list(x) for x in rej], 'drop': [list(x) for x in drop],
                            'ev': [{'t': e['t'], 'k': e['k'], 'v': (e['v'] if e['v'] is not None else -9)}
                                   for e in trace], 'schedule': chosen}
                return bodies, finish, None
            # caller supplied ids are recognised in the opener through the X-Mine echo header
            execs = []
            if make_bodies()[2] == 'skip':
                ctx.note_drift('the counter of the shared state is not an int attribute _cur_req_id: the configuration that starts at %d is skipped' % start)
                continue
            for res in sched.explore_sleep(sch, make_bodies, limit=limit):
                execs.append(res)
            total += len(execs)
            groups.setdefault((nt, reqs), []).extend(execs)
            ctx.extra.setdefault('schedules_per_config', {})['%dx%d own=%s fail=%s shared_headers=%s start=%d rej=%s drop=%s' % (
                nt, reqs, own, fail, shared, start, rej, drop)] = len(execs)
            if len(execs) >= limit:
                ctx.extra['schedule_limit_hit'] = True
    finally:
        sched.uninstall(sch)
        if real_threading is not None:
            conn_http.threading = real_threading
        for ow, n, v in static_saved:
            setattr(ow, n, v)
        transport.__exit__()
    # 3. trace validation
    nviol = 0
    for (nt, reqs), execs in groups.items():
        # negative self-tests (synthetic): duplicate id; gap
        dup = {'threads': nt, 'reqs': reqs, 'own': [], 'fail': [], 'start': 0, 'rej': [], 'ev': [{'t': 1 + (i % nt), 'k': 'send', 'v': 0} for i in range(nt * reqs)], 'schedule': []}
        gap = {'threads': nt, 'reqs': reqs, 'own': [], 'fail': [], 'start': 0, 'rej': [], 'ev': [{'t': 1 + (i % nt), 'k': 'send', 'v': i + 1} for i in range(nt * reqs)], 'schedule': []}
        allc = execs + [dup, gap]
        path = os.path.join(ctx.tmp, 'c16_%d_%d.ndjson' % (nt, reqs))
        with open(path, 'w') as f:
            for c in allc:
                f.write(json.dumps({k: c[k] for k in ('threads', 'reqs', 'own', 'fail', 'start', 'rej', 'ev')}) + '\n')
        r = ctx.tlc('http/ReqIdJudge.tla', 'SPECIFICATION Spec\nCHECK_DEADLOCK FALSE\nCONSTANTS\n  NT = %d\n  Reqs = %d\n' % (nt, reqs),
                    env={'CASES': path}, workers=16, timeout=3600)
        verd = {}
        for ln in r.raw_printed:
            m = re.match(r'<<"([A-Z-]+)", (\d+), (\d+)>>', ln)
            if m:
                verd[int(m.group(2))] = (m.group(1), int(m.group(3)))
        if len(verd) != len(allc):
            raise Machinery('ReqIdJudge gave %d verdicts for %d traces' % (len(verd), len(allc)))
        n = len(execs)
        ctx.selftest(verd[n + 1][0] == 'REJECT-IDS' and verd[n + 2][0] == 'REJECT-IDS', 'ReqIdJudge accepted duplicate/gapped ids')
        ndrift = 0
        for i, c in enumerate(execs):
            v, l = verd[i + 1]
            if v == 'REJECT-IDS':
                nviol += 1
                sends = [(e['t'], e['v']) for e in c['ev'] if e['k'] == 'send']
                ctx.violation({'threads': nt, 'reqs': reqs, 'own': c['own'], 'fail': c['fail'],
                               'shared_headers': c.get('shared_headers', False), 'start': c.get('start', 0), 'rej': c.get('rej', []), 'drop': c.get('drop', []), 'schedule': c['schedule']},
                              'schedule %s of %d threads x %d requests: ids that reached the opener (thread, number; -1 = '
                              'caller id unchanged, -2 = caller id altered/consumed, -3 = malformed): %s' % (
                                  c['schedule'], nt, reqs, sends))
            elif v == 'DRIFT':
                ndrift += 1
                if ndrift <= 2:
                    ctx.note_drift('trace leaves the ReqId behaviours at event %d: %s' % (l, c['ev'][max(0, l - 2):l + 1]))
    ctx.traces = total
    ctx.exhaustive = not ctx.extra.get('schedule_limit_hit', False)
    some = groups[(2, 2)][len(groups[(2, 2)]) // 2]
    ctx.sample({'threads': 2, 'reqs': 2, 'schedule': some['schedule'], 'events': some['ev'][:14]})
    ctx.sample({'threads': 3, 'reqs': 1, 'schedule': groups[(3, 1)][0]['schedule']})


def replay(ctx, case):
    from ak import conn_http
    transport = _Transport()
    transport.__enter__()
    holder = {}
    probe = conn_http.HttpConn('http://h:1')
    shared_classes = sorted({type(o) for o in _shared_state(conn_http, probe)}, key=lambda c: c.__name__)
    sch = sched.Scheduler(shared_classes, lambda: holder.get('objs', []))
    sched.install(sch)
    real_threading = getattr(conn_http, 'threading', None)     # (a module that uses no locks does not import it)
    if real_threading is not None:
        conn_http.threading = sched.ThreadingShim(sch)
    static_locks = _static_locks(conn_http)
    static_saved = [(ow, n, getattr(ow, n)) for ow, n in static_locks]
    try:
        for ow, n in static_locks:
            setattr(ow, n, sched._Shim(sch))
        nt, reqs, own = case['threads'], case['reqs'], [tuple(x) for x in case['own']]
        fail = [tuple(x) for x in case.get('fail', [])]
        caller_headers = {'Accept': 'text/plain'} if case.get('shared_headers') else None
        base = conn_http.HttpConn('http://h:1')
        holder['objs'] = _shared_state(conn_http, base)
        start = case.get('start', 0)
        if start:
            cnt = [o for o in holder['objs'] if isinstance(getattr(o, '_cur_req_id', None), int)]
            if len(cnt) != 1:
                return None
            cnt[0]._cur_req_id = start
        seen = []

        class Op:
            def open(self, request):
                h = {k.lower(): v for k, v in request.header_items()}
                seen.append('mine-' if 'x-mine' in h and str(h.get('x-request-id')) == {'int0': '0', 'empty': ''}.get(h['x-mine'], h['x-mine'])
                            else ('altered-' if 'x-mine' in h else h.get('x-request-id')))
                key = (sch._me(), cur.get(sch._me()))
                if key in dropped:
                    dropped.discard(key)
                    import http.client
                    raise http.client.RemoteDisconnected('Remote end closed connection without response')
                return _Resp()
        _Transport.current = Op().open
        conns = [base, conn_http.ClientAuthConn(base, 'cname', 'u', 'p'), conn_http.HttpConn(base),
                 conn_http.BAuthConn(base, 'u', 'p'), conn_http.TokenAuthConn(conn_http.HttpConn(base), 'tok', 'descr')]
        bodies = []
        cur = {}
        rej = [tuple(x) for x in case.get('rej', [])]
        drop = [tuple(x) for x in case.get('drop', [])]
        dropped = set(drop)
        for t in range(1, nt + 1):
            def body(t=t):
                c = conns[(t - 1) % len(conns)]
                for r in range(1, reqs + 1):
                    cur[t] = r
                    verb = getattr(c, VERBS[(t + r) % 5])
                    if (t, r) in rej:
                        try:
                            verb('/x', params='limit=10&offset=20')
                        except TypeError:
                            pass
                    elif (t, r) in drop:
                        try:
                            verb('/x', headers=caller_headers)
                        except Exception:
                            pass
                    elif (t, r) in own:
                        _own_request(conn_http, base, c, VERBS[(t + r) % 5], t, r)
                    elif (t, r) in fail:
                        try:
                            c.post('/x', data={'k': _Unserialisable()}, headers=caller_headers)
                        except TypeError:
                            pass
                    else:
                        verb('/x', headers=caller_headers)
            bodies.append(body)
        sch.run(bodies, case['schedule'])
    finally:
        sched.uninstall(sch)
        if real_threading is not None:
            conn_http.threading = real_threading
        for ow, n, v in static_saved:
            setattr(ow, n, v)
        transport.__exit__()
    if any(str(s).startswith('altered-') for s in seen):
        return 'a caller supplied id was altered: %s' % seen
    gen = [s for s in seen if s and not str(s).startswith('mine-')]
    nums = sorted(int(str(s)[-12:]) for s in gen)
    mine = [s for s in seen if s and str(s).startswith('mine-')]
    nf = len(fail)
    nrej = len(case.get('rej', []))
    if (len(set(nums)) != len(nums) or (nums and (nums[-1] > start + len(gen) + nf - 1 or nums[0] < start)) or len(gen) != nt * reqs - len(own) - nf - nrej
            or len(mine) != len(own)):
        return 'ids %s' % seen
    return None
