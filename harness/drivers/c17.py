"""C17 - layered HTTP connections compose adapters without side effects.

specs/http/HttpConn.tla  histories of connection / caller derivations; A-spec Expected(conn) as a function of
                         the construction chain; TLC: Stable, AtMostOneAuth, CacheOwn
Every TLC history is replayed on real connection objects with the opener replaced by a recorder; after every
action a probe request is sent through every live connection and compared with the specification.
"""
import base64
import copy
import json
from urllib.parse import urlsplit, urlencode

from vcheck import Machinery, pmap, guarded


def _cfg(maxact, maxconns, emit, props=True):
    return ('SPECIFICATION Spec\nCHECK_DEADLOCK FALSE\nCONSTANTS\n  MaxActions = %d\n  MaxConns = %d\n  Emit = %s\n'
            'INVARIANT AtMostOneAuth\nINVARIANT CacheOwn\n%s' % (maxact, maxconns, 'TRUE' if emit else 'FALSE',
                                                                   'PROPERTY Stable\n' if props else ''))


class _Resp:
    code = 200
    _method = 'GET'

    def __init__(self, body):
        self._b = body

    def read(self):
        return self._b

    def getheaders(self):
        return []

    def __enter__(self):
        return self

    def __exit__(self, *a):
        return False


SEEN = []          # every prepared request that reached the transport in this process (the replays are sequential)


def _intercept_transport():
    """the requests are taken where they leave the package: urllib's OpenerDirector.open; build_opener returns a bare
    OpenerDirector (the default one loads the system certificate store, about 30 ms per connection)"""
    import urllib.request as ur

    def _open(od, request, *a, **k):
        SEEN.append(request)
        return _Resp(b'[]')
    ur.build_opener = lambda *handlers: ur.OpenerDirector()
    ur.OpenerDirector.open = _open


_ENV = {}


def _env():
    if _ENV:
        return _ENV
    from ak import conn_http
    from ak.mcaller_http import MCallerHttp, method_http

    class RespAdapter(conn_http.RequestAdapter):
        def __init__(self, tag):
            self.tag = tag

        def process_response(self, return_value):
            if self.tag == 'Z0':
                return []                    # a processor whose result is falsy
            if isinstance(return_value, list):
                return return_value + [self.tag]
            return [return_value, self.tag]          # a raw response object: wrapped by the first processor

    class HdrAdapter(conn_http.RequestAdapter):
        def __init__(self, name, val):
            self.name, self.val = name, val

        def process_req_args(self, req_args):
            req_args.headers[self.name] = self.val

    class Caller(MCallerHttp):
        _HTTP_PREFIX_MAP = {'c1': '/m1', 'c2': '/m2/v', 'c0': '', 'c3': '/m1/'}

        @method_http(None, 'c1')
        def conn_c1(self):
            return self.get_conn()

        @method_http(None, 'c2')
        def conn_c2(self):
            return self.get_conn()

        @method_http(None, 'c0')
        def conn_c0(self):
            return self.get_conn()

        @method_http(None, 'c3')
        def conn_c3(self):
            return self.get_conn()

    _intercept_transport()
    _ENV.update(ch=conn_http, RespAdapter=RespAdapter, HdrAdapter=HdrAdapter, Caller=Caller)
    return _ENV


def _cred(x):
    """the spec's login names with a character outside ASCII but inside latin-1 (the header carries utf-8)"""
    return {'joe': 'jo\u00e9', 'cid': 'c\u00efd'}.get(x, x)


def _adapter(a):
    e = _env()
    ch = e['ch']
    k = a['k']
    if k == 'prefix':
        return ch.RequestAdapterAddPathPrefix('/' + '/'.join(a['segs']) + ('/' if a['trail'] else ''))
    if k == 'resp':
        return e['RespAdapter'](a['tag'])
    if k == 'hdr':
        return e['HdrAdapter'](a['name'], a['val'])
    if k == 'basic':
        return ch.BAuthConn.Adapter(_cred(a['user']), a['pw'])
    if k == 'token':
        return ch.TokenAuthConn.Adapter(a['tok'])
    if k == 'client':
        return ch.ClientAuthConn.Adapter('cname', _cred(a['user']), a['pw'])
    raise ValueError(k)


def _hdrs(req):
    return {k.lower(): v for k, v in req.header_items()}


def _check_request(req, ret, exp, params, hdr_in, raw_trailing=False):
    u = urlsplit(req.full_url)
    base = '%s://%s' % (u.scheme, u.netloc)
    if base != exp['addr'].rstrip('/'):
        return 'request goes to %r, connection address is %r' % (base, exp['addr'])
    # the url is address + path: a str address loses its trailing '/' when the connection is created, an address given
    # inside a tuple / list / dict is used as it is (raw_trailing), so its '/' and the one of the path both remain
    want_path = ('/' if raw_trailing else '') + '/' + '/'.join(exp['segs'])
    if u.path != want_path:
        return 'request goes to path %r, address + path is %r' % (u.path, want_path)
    segs = [s for s in u.path.split('/') if s != '']
    if segs != list(exp['segs']):
        return 'path %r, expected segments %s (prefixes of inner connections outermost)' % (u.path, list(exp['segs']))
    if u.query != (urlencode(params) if params else ''):
        return 'query %r, expected %r' % (u.query, urlencode(params) if params else '')
    h = _hdrs(req)
    auth = [v for k, v in req.header_items() if k.lower() == 'authorization']
    a = exp['auth']
    if a['k'] == 'noauth':
        if auth:
            return 'unexpected Authorization header %r' % auth
    else:
        if len(auth) != 1:
            return 'expected exactly one Authorization header, got %r' % auth
        v = auth[0].decode() if isinstance(auth[0], bytes) else auth[0]
        if a['k'] == 'token':
            if v != 'Bearer ' + a['tok']:
                return 'Authorization %r, expected bearer token %r' % (v, a['tok'])
        else:
            if not v.startswith('Basic '):
                return 'Authorization %r is not Basic' % v
            try:
                cred = base64.b64decode(v[6:]).decode('utf-8')
            except Exception:
                return 'Authorization %r does not decode' % v
            if cred != '%s:%s' % (_cred(a['user']), a['pw']):
                return 'Authorization decodes to %r, configured credentials are %r' % (cred, '%s:%s' % (_cred(a['user']), a['pw']))
    for name, val in exp['hdrs']:
        if h.get(name.lower()) != val:
            return 'header %s of an adapter in the chain is %r, expected %r' % (name, h.get(name.lower()), val)
    for name, val in (hdr_in or {}).items():
        if h.get(name.lower()) != val:
            return 'caller header %s is %r, expected %r' % (name, h.get(name.lower()), val)
    extra = set(h) - {'authorization', 'x-request-id', 'content-type'} - {n.lower() for n, _ in exp['hdrs']} - {
        n.lower() for n in (hdr_in or {})}
    if extra:
        return 'unexpected headers %s' % sorted(extra)
    if ret is not None and ret != list(exp['resp']):
        return 'response processors applied as %s, expected reverse adapter order %s' % (ret, list(exp['resp']))
    return None


DATA = {
    'none': (None, None, None), 'bytes': (b'\x00ab', b'\x00ab', None), 'str': ('text', b'text', None),
    'dict': ({'k': [1, 'v']}, json.dumps({'k': [1, 'v']}).encode(), 'application/json'),
    'emptydict': ({}, b'{}', 'application/json'), 'zero': (0, b'0', 'application/json'),
    'emptylist': ([], b'[]', 'application/json'), 'false': (False, b'false', 'application/json'),
    'emptystr': ('', b'', None), 'emptybytes': (b'', b'', None), 'nonascii': ('é€', 'é€'.encode('utf-8'), None),
}


@guarded(lambda m: (m, []))
def replay_history(hist):
    e = _env()
    ch = e['ch']
    conns, callers = [], []
    rawflag, caller_raw = [], []     # per connection / caller: its root was given its address inside a tuple / list / dict and with a trailing '/'
    shared = {}     # one Python list object per distinct list of adapters, passed to every derivation that uses it

    def shared_list(args):
        key = json.dumps(args, sort_keys=True)
        if key not in shared:
            lst = [_adapter(a) for a in args]
            shared[key] = (lst, list(lst))
        return shared[key][0]

    def probe(conn, exp, where, raw_trailing):
        params = {'q': 'a b', 'z': '1&2'}
        hdr = {'H': '1'}
        p0, h0 = copy.deepcopy(params), copy.deepcopy(hdr)
        n0 = len(SEEN)
        try:
            ret = conn.get('/x', params=params, headers=hdr)
        except Exception as ex:
            return '%s: probe request raised %s: %s' % (where, type(ex).__name__, str(ex)[:100])
        if len(SEEN) != n0 + 1:
            return '%s: %d requests reached the opener for one call' % (where, len(SEEN) - n0)
        if params != p0 or hdr != h0:
            return '%s: caller objects were modified: params %r headers %r' % (where, params, hdr)
        r = _check_request(SEEN[-1], ret, exp, p0, h0, raw_trailing)
        if r is not None:
            return '%s: %s' % (where, r)
        # raw_response=True: the response object itself goes through the response processors
        try:
            raw = conn.get('/x', raw_response=True)
        except Exception as ex:
            return '%s: probe request with raw_response=True raised %s: %s' % (where, type(ex).__name__, str(ex)[:100])
        if exp.get('respcut'):
            if raw != list(exp['resp']):
                return '%s: raw_response=True gives %r, expected %s (a processor replaces the value by [])' % (where, raw, list(exp['resp']))
        else:
            tags_seen = raw[1:] if isinstance(raw, list) else []
            obj = raw[0] if isinstance(raw, list) and raw else raw
            if not isinstance(obj, _Resp) or tags_seen != list(exp['resp']):
                return '%s: raw_response=True gives %r, expected the response object processed by %s' % (where, raw, list(exp['resp']))
        # the same through a request path without a leading '/'
        try:
            conn.get('x')
        except Exception as ex:
            return '%s: probe request with a relative path raised %s: %s' % (where, type(ex).__name__, str(ex)[:100])
        u = urlsplit(SEEN[-1].full_url)
        segs = [x for x in u.path.split('/') if x != '']
        want_rel = '/x' if list(exp['rel']) == ['x'] else ('/' if raw_trailing else '') + '/' + '/'.join(exp['rel'])
        if u.path != want_rel:
            return '%s: relative request path "x" goes to %r, address + path is %r' % (where, u.path, want_rel)
        if segs != list(exp['rel']):
            return '%s: relative request path "x" goes to %r, expected segments %s' % (where, u.path, list(exp['rel']))
        return None

    for n, st in enumerate(hist):
        op = st['op']
        where = 'step %d (%s)' % (n + 1, op)
        tags = []
        extra_probe = None
        try:
            if op == 'newconn':
                # the connection data may be the address, a tuple / list of arguments or a dict of arguments
                form = (len(hist) + n + len(st['addr'])) % 4
                data = (st['addr'], (st['addr'],), {'address': st['addr']}, [st['addr']])[form]
                c = ch.HttpConn(data)
                conns.append(c)
                rawflag.append(form != 0 and st['addr'].endswith('/'))
            elif op == 'wrap':
                ads = shared_list(st['args']) if st['aslist'] else [_adapter(a) for a in st['args']]
                conns.append(ch.HttpConn(conns[st['parent'] - 1], adapters=ads if st['aslist'] else ads[0]))
                rawflag.append(rawflag[st['parent'] - 1])
            elif op == 'authwrap':
                a = st['auth']
                p = conns[st['parent'] - 1]
                if a['k'] == 'basic':
                    conns.append(ch.BAuthConn(p, _cred(a['user']), a['pw']))
                elif a['k'] == 'token':
                    conns.append(ch.TokenAuthConn(p, a['tok'], 'descr'))
                else:
                    conns.append(ch.ClientAuthConn(p, 'cname', _cred(a['user']), a['pw']))
                rawflag.append(rawflag[st['parent'] - 1])
            elif op == 'newcaller':
                callers.append(e['Caller'](conns[st['conn'] - 1]))
                caller_raw.append(rawflag[st['conn'] - 1])
                if st['wrapped']:
                    conns.append(callers[-1].http_conn)
                    rawflag.append(caller_raw[-1])
                elif callers[-1].http_conn is not conns[st['conn'] - 1]:
                    return '%s: machinery: the caller does not use the plain connection it was given' % where, ['machinery']
            elif op == 'clone':
                ads = shared_list(st['args']) if st['form'] == 'list' else [_adapter(a) for a in st['args']]
                m = callers[st['caller'] - 1]
                if st['form'] == 'list':
                    tags = ['http.clone_list_of_adapters']
                    cl = m.clone(ads)       # the property speaks of a list; tuples are not exercised
                elif st['form'] == 'single':
                    cl = m.clone(ads[0])
                else:
                    cl = m.clone()
                callers.append(cl)
                caller_raw.append(caller_raw[st['caller'] - 1])
                conns.append(cl.http_conn)
                rawflag.append(caller_raw[-1])
            elif op == 'getconn':
                m = callers[st['caller'] - 1]
                c = getattr(m, 'conn_' + st['comp'])()
                if st['result'] == len(conns) + 1:
                    conns.append(c)
                    rawflag.append(caller_raw[st['caller'] - 1])
                else:
                    extra_probe = (c, st['result'], caller_raw[st['caller'] - 1])
            elif op == 'addadapter':
                conns[st['conn'] - 1].add_adapter(_adapter(st['adapter']))
            elif op == 'request':
                conn = conns[st['conn'] - 1]
                data, body, ctype = DATA[st['data']]
                d0 = copy.deepcopy(data)
                hdr = {'H': '1'}
                ret = getattr(conn, st['method'])('/x', data=data, headers=hdr)
                req = SEEN[-1]
                exp = st['exp'][st['conn'] - 1]
                r = _check_request(req, ret, exp, None, {'H': '1'}, rawflag[st['conn'] - 1])
                if r:
                    return '%s: %s' % (where, r), []
                if req.get_method() != st['method'].upper():
                    return '%s: method %s sent as %s' % (where, st['method'], req.get_method()), []
                if req.data != body:
                    return '%s: body of kind %s sent as %r, expected %r' % (where, st['data'], req.data, body), []
                if _hdrs(req).get('content-type') != ctype:
                    return '%s: Content-Type %r for body kind %s, expected %r' % (where, _hdrs(req).get('content-type'), st['data'], ctype), []
                if data != d0 or hdr != {'H': '1'}:
                    return '%s: caller data/headers modified' % where, []
        except Exception as ex:
            return '%s raised %s: %s' % (where, type(ex).__name__, str(ex)[:120]), tags
        for lst, pristine in shared.values():
            if len(lst) != len(pristine) or any(x is not y for x, y in zip(lst, pristine)):
                return '%s: the caller\'s list of adapters was modified (%d items, was %d)' % (where, len(lst), len(pristine)), tags
        if len(conns) != len(st['exp']):
            return '%s: machinery mismatch in number of connections' % where, ['machinery']
        for i, conn in enumerate(conns):
            r = probe(conn, st['exp'][i], '%s, probe through connection #%d' % (where, i + 1), rawflag[i])
            if r:
                return r, tags
        if extra_probe:
            r = probe(extra_probe[0], st['exp'][extra_probe[1] - 1], '%s, probe through the returned connection' % where, extra_probe[2])
            if r:
                return r, tags
    return None, []


def run(ctx):
    ctx.assumptions += ['at most one authenticating layer per chain (the code asserts against two); request paths start '
                        'with "/"; URLs compared by path segments (duplicate "/" collapsed); add_adapter appends to the effective list of that connection only']
    depth = 3
    ctx.tlc('http/HttpConn.tla', _cfg(depth if ctx.quick else 4, 4 if ctx.quick else 5, False), workers=16, timeout=7200, heap='12g')
    r = ctx.tlc('http/HttpConn.tla', _cfg(depth, 4, True, props=False), workers=16, timeout=3000)
    hists = [h for h in r.printed if isinstance(h, list)]
    n_exh = len(hists)
    if n_exh < 500:
        raise Machinery('HttpConn emitted %d histories' % n_exh)
    nsim = 4000 if ctx.quick else 80000
    r = ctx.tlc('http/HttpConn.tla', _cfg(7, 8, True, props=False), workers=8, simulate=nsim // 8, depth=10, timeout=3000)
    sim = [h for h in r.printed if isinstance(h, list)]
    hists += sim
    res = pmap(replay_history, hists)
    for h, (prob, tags) in zip(hists, res):
        if prob:
            if 'machinery' in tags:
                raise Machinery(prob)
            ctx.violation({'history': h}, prob, tags)
    bad = json.loads(json.dumps(next(h for h in hists if any(st['op'] == 'wrap' and st['args'][0]['k'] == 'prefix' for st in h))))
    for st in bad:
        for ex in st['exp']:
            ex['segs'] = list(reversed(ex['segs'])) + ['zz']
    ctx.selftest(replay_history(bad)[0] is not None, 'replay accepted corrupted expected path')
    ctx.traces = len(hists)
    ctx.exhaustive = False
    ctx.extra['histories_exhaustive_depth'] = depth
    ctx.extra['histories_exhaustive'] = n_exh
    ctx.extra['histories_simulated'] = len(sim)
    for h in (hists[1], hists[n_exh // 2], hists[-1]):
        ctx.sample([{k: v for k, v in st.items() if k != 'exp'} for st in h])


def replay(ctx, case):
    return replay_history(case['history'])[0]
