"""C03 - left-recursive grammars are rejected; accepted grammars always terminate."""
from drivers import ll


def run(ctx):
    ll.explore(ctx, 'C03')


def replay(ctx, case):
    return ll.replay_case(ctx, case, 'C03')
