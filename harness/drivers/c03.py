"""C03 - left-recursive grammars are rejected; accepted grammars always terminate."""
from drivers import ll
from vcheck import Machinery

TOK = (r"(?P<SPACE>\s+)|(?P<WORD>[a-z][a-z0-9]*)|(?P<COMMA>,)|(?P<BO>\[)|(?P<BC>\])|(?P<CO>\{)|(?P<CC>\})|(?P<COLON>:)")
SYN = {'COMMA': ',', 'BO': '[', 'BC': ']', 'CO': '{', 'CC': '}', 'COLON': ':'}
TEXTS = ['w', 'w { a : b , }', 'w [ a ] { }', 'w [ ]', 'w [ a ]', 'w [ a , b ]', 'w [ a b ]', 'w [ a , ]', 'w [ , ]', 'w a', 'w a , b', 'w a b', 'w ,', 'w [ a , , b ]']


def template_case(c, smart):
    """one option set of specs/llparser/LLListExpand.tla on the real ListProds; -> problem or None"""
    from ak import llparser
    o = c['opt']
    if c['dup']:
        return None                  # two equal adjacent productions: the constructor refuses them for another reason
    prods = {'E': [('WORD', 'LIST', 'OMAP') if o.get('second') else ('WORD', 'LIST')], 'IT': [('WORD',), None] if o['itemnull'] else [('WORD',)]}
    if o.get('second'):
        prods['OMAP'] = llparser.MapProds('{', 'WORD', ':', 'WORD', ',', '}', optional=True)
    delim = {'none': None, 'term': ',', 'ntnull': 'OC', 'nt': 'CM'}[o['delim']]
    if o['delim'] == 'ntnull':
        prods['OC'] = [(',',), None]
    elif o['delim'] == 'nt':
        prods['CM'] = [(',',)]
    try:
        prods['LIST'] = llparser.ListProds('[' if o['br'] else None, 'IT', delim, ']' if o['br'] else None,
                                           allow_final_delimiter=o['afd'], optional=o['optional'])
    except AssertionError:
        return None                  # a combination of options the template does not offer
    cls = ll.parser_class()
    where = 'ListProds(%r, IT, %r, %r, allow_final_delimiter=%s, optional=%s), IT %s%s, smart=%s' % (
        '[' if o['br'] else None, delim, ']' if o['br'] else None, o['afd'], o['optional'],
        'nullable' if o['itemnull'] else 'not nullable', ', followed by an optional MapProds' if o.get('second') else '', smart)
    try:
        p = cls(TOK, synonyms=SYN, productions=prods, smart_factorization=smart)
        outcome = 'ok'
    except llparser.GrammarIsRecursive:
        outcome = 'GrammarIsRecursive'
    except (llparser.GrammarError, AssertionError):
        return None                  # rejected for another reason (e.g. nullable items without a delimiter): no verdict
    except Exception as e:
        if c['leftrec']:
            return '%s: the productions the template generates are left recursive (symbols %s) but the constructor raised %s: %s instead of GrammarIsRecursive' % (
                where, c['lrsyms'], type(e).__name__, str(e)[:80])
        return None
    if c['leftrec'] != (outcome == 'GrammarIsRecursive'):
        return '%s: constructor %s, but the productions the template generates %s left recursive (symbols %s): %s' % (
            where, 'accepted the grammar' if outcome == 'ok' else 'raised GrammarIsRecursive',
            'are' if c['leftrec'] else 'are not', c['lrsyms'], c['prods'])
    if outcome != 'ok':
        return None
    for text in TEXTS:
        try:
            p.parse_counted(text, ll.STEP_BUDGET)
        except ll._Budget:
            return '%s: parse(%r) does not return within %d machine steps' % (where, text, ll.STEP_BUDGET)
        except llparser.Error:
            pass
        except RecursionError:
            return '%s: parse(%r) raised RecursionError' % (where, text)
    return None


def templates(ctx):
    r = ctx.tlc('llparser/LLListExpand.tla', 'SPECIFICATION Spec\nCHECK_DEADLOCK FALSE\nINVARIANT TerminalDelimiterIsSafe\n',
                workers=4, timeout=1200)
    cases = [c for c in r.printed if isinstance(c, dict)]
    if len(cases) != 128:
        raise Machinery('LLListExpand emitted %d option sets' % len(cases))
    nrec = 0
    for c in cases:
        nrec += 1 if c['leftrec'] and not c['dup'] else 0
        for smart in (True, False):
            prob = template_case(c, smart)
            if prob:
                ctx.violation({'template': c, 'smart': smart}, prob)
    ctx.extra['list_template_option_sets'] = {'total': len(cases), 'left_recursive_expansions': nrec}


def seq_case(c, smart):
    """one element list of specs/llparser/LLSeqExpand.tla on the real ProdSequence; -> problem or None.
    The constructor has no other objection to these grammars, so a left-recursive expansion must give GrammarIsRecursive"""
    from ak import llparser
    tok = r"(?P<SPACE>\s+)|(?P<WORD>[a-z][a-z0-9]*)|(?P<COMMA>,)|(?P<SEMI>;)"
    syn = {'COMMA': ',', 'SEMI': ';'}
    names = {'w': 'WORD', 'CM': 'CM', 'OC': 'OC', 'CH': 'CH'}
    els = [names[x] for x in c['elems']]
    prods = {'E': [('SEQ', ';')], 'SEQ': llparser.ProdSequence(*els)}
    if 'CM' in els:
        prods['CM'] = [(',',)]
    if 'OC' in els or 'CH' in els:
        prods['OC'] = [(',',), None]
    if 'CH' in els:
        prods['CH'] = [('OC',)]
    cls = ll.parser_class()
    where = 'E -> SEQ ";", SEQ = ProdSequence(%s), smart=%s' % (', '.join(els), smart)
    try:
        p = cls(tok, synonyms=syn, productions=prods, smart_factorization=smart)
        outcome = 'ok'
    except llparser.GrammarIsRecursive:
        outcome = 'GrammarIsRecursive'
    except Exception as e:
        outcome = '%s: %s' % (type(e).__name__, ' '.join(str(e).split())[:80])
    want = 'GrammarIsRecursive' if c['leftrec'] else 'ok'
    if outcome != want:
        return '%s: constructor gives %s, the productions the sequence generates %s left recursive (symbols %s): expected %s' % (
            where, outcome, 'are' if c['leftrec'] else 'are not', c['lrsyms'], want)
    if outcome == 'ok':
        for text in (';', 'w ;', 'w , w , ;', ', , w ;', 'w w', 'w , ; ;'):
            try:
                p.parse_counted(text, ll.STEP_BUDGET)
            except ll._Budget:
                return '%s: parse(%r) does not return within %d machine steps' % (where, text, ll.STEP_BUDGET)
            except llparser.Error:
                pass
            except RecursionError:
                return '%s: parse(%r) raised RecursionError' % (where, text)
    return None


def sequences(ctx):
    r = ctx.tlc('llparser/LLSeqExpand.tla', 'SPECIFICATION Spec\nCHECK_DEADLOCK FALSE\nINVARIANT RecursiveIffNullableElement\n',
                workers=4, timeout=1200)
    cases = [c for c in r.printed if isinstance(c, dict)]
    if len(cases) != 16:
        raise Machinery('LLSeqExpand emitted %d element lists' % len(cases))
    for c in cases:
        for smart in (True, False):
            prob = seq_case(c, smart)
            if prob:
                ctx.violation({'sequence': c, 'smart': smart}, prob)
    ctx.extra['sequence_template_element_lists'] = {'total': len(cases), 'left_recursive_expansions': sum(1 for c in cases if c['leftrec'])}


LONG = 3000


def long_case(name):
    """one long input (LONG items) on an accepted grammar: ('ok' | 'ParsingError' | other outcome)"""
    import sys
    from ak import llparser
    tok = TOK
    n = LONG
    if name == 'sequence':
        prods, text, kw = {'E': [('SEQ',)], 'SEQ': llparser.ProdSequence('WORD', ',')}, ' , '.join(['a'] * n), {}
    elif name == 'rightrec-raw':
        prods, text, kw = {'E': [('WORD', 'E'), None]}, ' '.join(['a'] * n), {'do_cleanup': False}
    elif name == 'list-raw':
        prods, text, kw = {'E': [('L',)], 'L': llparser.ListProds('[', 'WORD', ',', ']')}, '[' + ' , '.join(['a'] * n) + ']', {'do_cleanup': False}
    elif name == 'rightrec':
        prods, text, kw = {'E': [('WORD', 'E'), None]}, ' '.join(['a'] * n), {}
    elif name == 'list':
        prods, text, kw = {'E': [('L',)], 'L': llparser.ListProds('[', 'WORD', ',', ']')}, '[' + ' , '.join(['a'] * n) + ']', {}
    elif name == 'map':
        prods, text, kw = ({'E': [('M',)], 'M': llparser.MapProds('{', 'WORD', ':', 'WORD', ',', '}')},
                           '{' + ' , '.join('k%d : v' % i for i in range(n)) + '}', {})
    else:
        raise ValueError(name)
    old = sys.getrecursionlimit()
    sys.setrecursionlimit(1000)          # the interpreter's default, whatever the harness set
    try:
        p = llparser.LLParser(tok, synonyms=SYN, productions=prods)
        p.parse(text, **kw)
        return 'ok'
    except llparser.ParsingError:
        return 'ParsingError'
    except RecursionError:
        return 'RecursionError'
    except Exception as e:
        return 'other:' + type(e).__name__
    finally:
        sys.setrecursionlimit(old)


def long_inputs(ctx):
    """inputs of LONG items on accepted grammars: parse returns (or raises a parsing error) - the parser's own stack is a
    list, so its depth is no problem; the DEFAULT CLEANUP of deep trees recurses (known finding F-C03b)"""
    seen = {}
    for name in ('sequence', 'rightrec-raw', 'list-raw', 'rightrec', 'list', 'map'):
        outc = long_case(name)
        seen[name] = outc
        if outc in ('ok', 'ParsingError'):
            continue
        tags = ['ll.cleanup_recursion_depth'] if (outc == 'RecursionError' and name in ('rightrec', 'list', 'map')) else []
        ctx.violation({'long': name}, 'accepted grammar %r, a valid input of %d items: parse gives %s instead of a tree' % (name, LONG, outc), tags)
    ctx.extra['long_inputs'] = seen


def run(ctx):
    ll.explore(ctx, 'C03')
    templates(ctx)
    sequences(ctx)
    long_inputs(ctx)


def replay(ctx, case):
    if 'template' in case:
        return template_case(case['template'], case['smart'])
    if 'sequence' in case:
        return seq_case(case['sequence'], case['smart'])
    if 'long' in case:
        outc = long_case(case['long'])
        return None if outc in ('ok', 'ParsingError') else 'parse gives %s' % outc
    return ll.replay_case(ctx, case, 'C03')
