"""C03 - left-recursive grammars are rejected; accepted grammars always terminate."""
from drivers import ll
from vcheck import Machinery

TOK = (r"(?P<SPACE>\s+)|(?P<WORD>[a-z][a-z0-9]*)|(?P<COMMA>,)|(?P<BO>\[)|(?P<BC>\])|(?P<CO>\{)|(?P<CC>\})|(?P<COLON>:)")
SYN = {'COMMA': ',', 'BO': '[', 'BC': ']', 'CO': '{', 'CC': '}', 'COLON': ':'}
TEXTS = ['w', 'w { a : b , }', 'w [ a ] { }', 'w [ ]', 'w [ a ]', 'w [ a , b ]', 'w [ a b ]', 'w [ a , ]', 'w [ , ]', 'w a', 'w a , b', 'w a b', 'w ,', 'w [ a , , b ]']


def template_case(c, smart):
    """one option set of specs/llparser/LLListExpand.tla on the real ListProds; -> problem or None"""
    from ak import llparser
    o = c['opt']
    if c['dup']:
        return None                  # two equal adjacent productions: the constructor refuses them for another reason
    prods = {'E': [('WORD', 'LIST', 'OMAP') if o.get('second') else ('WORD', 'LIST')], 'IT': [('WORD',), None] if o['itemnull'] else [('WORD',)]}
    if o.get('second'):
        prods['OMAP'] = llparser.MapProds('{', 'WORD', ':', 'WORD', ',', '}', optional=True)
    delim = {'none': None, 'term': ',', 'ntnull': 'OC', 'nt': 'CM'}[o['delim']]
    if o['delim'] == 'ntnull':
        prods['OC'] = [(',',), None]
    elif o['delim'] == 'nt':
        prods['CM'] = [(',',)]
    try:
        prods['LIST'] = llparser.ListProds('[' if o['br'] else None, 'IT', delim, ']' if o['br'] else None,
                                           allow_final_delimiter=o['afd'], optional=o['optional'])
    except AssertionError:
        return None                  # a combination of options the template does not offer
    cls = ll.parser_class()
    where = 'ListProds(%r, IT, %r, %r, allow_final_delimiter=%s, optional=%s), IT %s%s, smart=%s' % (
        '[' if o['br'] else None, delim, ']' if o['br'] else None, o['afd'], o['optional'],
        'nullable' if o['itemnull'] else 'not nullable', ', followed by an optional MapProds' if o.get('second') else '', smart)
    try:
        p = cls(TOK, synonyms=SYN, productions=prods, smart_factorization=smart)
        outcome = 'ok'
    except llparser.GrammarIsRecursive:
        outcome = 'GrammarIsRecursive'
    except (llparser.GrammarError, AssertionError):
        return None                  # rejected for another reason (e.g. nullable items without a delimiter): no verdict
    except Exception as e:
        if c['leftrec']:
            return '%s: the productions the template generates are left recursive (symbols %s) but the constructor raised %s: %s instead of GrammarIsRecursive' % (
                where, c['lrsyms'], type(e).__name__, str(e)[:80])
        return None
    if c['leftrec'] != (outcome == 'GrammarIsRecursive'):
        return '%s: constructor %s, but the productions the template generates %s left recursive (symbols %s): %s' % (
            where, 'accepted the grammar' if outcome == 'ok' else 'raised GrammarIsRecursive',
            'are' if c['leftrec'] else 'are not', c['lrsyms'], c['prods'])
    if outcome != 'ok':
        return None
    for text in TEXTS:
        try:
            p.parse_counted(text, ll.STEP_BUDGET)
        except ll._Budget:
            return '%s: parse(%r) does not return within %d machine steps' % (where, text, ll.STEP_BUDGET)
        except llparser.Error:
            pass
        except RecursionError:
            return '%s: parse(%r) raised RecursionError' % (where, text)
    return None


def templates(ctx):
    r = ctx.tlc('llparser/LLListExpand.tla', 'SPECIFICATION Spec\nCHECK_DEADLOCK FALSE\nINVARIANT TerminalDelimiterIsSafe\n',
                workers=4, timeout=1200)
    cases = [c for c in r.printed if isinstance(c, dict)]
    if len(cases) != 128:
        raise Machinery('LLListExpand emitted %d option sets' % len(cases))
    nrec = 0
    for c in cases:
        nrec += 1 if c['leftrec'] and not c['dup'] else 0
        for smart in (True, False):
            prob = template_case(c, smart)
            if prob:
                ctx.violation({'template': c, 'smart': smart}, prob)
    ctx.extra['list_template_option_sets'] = {'total': len(cases), 'left_recursive_expansions': nrec}


def run(ctx):
    ll.explore(ctx, 'C03')
    templates(ctx)


def replay(ctx, case):
    if 'template' in case:
        return template_case(case['template'], case['smart'])
    return ll.replay_case(ctx, case, 'C03')
