"""C02 - conflict-free (LL(1)) grammars are parsed exactly."""
from drivers import ll


def run(ctx):
    ll.explore(ctx, 'C02')


def replay(ctx, case):
    return ll.replay_case(ctx, case, 'C02')
