"""C05 - list, map and sequence templates return exactly the denoted items.

specs/llparser/LLTemplates.tla  data ADT, option sets, Render (token streams incl. optional / forbidden final
                                delimiter), Denote (expected cleaned value); TLC: FinalDelimiterAddsNothing
Each emitted (options, token stream, expected value) is rendered to text with seeded skipped tokens (spaces,
newlines, comments), parsed by a real parser built from ListProds / MapProds / ProdSequence with those options
(default cleanup) and the unwrapped value compared with Denote.
"""
import json
import random

from vcheck import Machinery, pmap

TOK = (r"(?P<SPACE>\s+)|(?P<COMMENT>\#[^\n]*)|(?P<WORD>[a-z][a-z0-9]*)|(?P<COMMA>,)|(?P<BO>\[)|(?P<BC>\])|(?P<SEMI>;)|(?P<EQ>=)"
       r"|(?P<CO>\{)|(?P<CC>\})|(?P<COLON>:)|(?P<LT><)|(?P<GT>>)")
SYN = {'SEMI': ';', 'EQ': '=', 'COMMA': ',', 'BO': '[', 'BC': ']', 'CO': '{', 'CC': '}', 'COLON': ':', 'LT': '<', 'GT': '>'}
_PARSERS = {}


def _afd(o):
    return {'default': None, 'yes': True, 'no': False}[o['afd']]


def parser_for(o, order=0):
    key = json.dumps(o, sort_keys=True) + str(order)
    if key in _PARSERS:
        return _PARSERS[key]
    from ak import llparser
    delim = ',' if o['delim'] else None
    item = 'LIST_ITEM' if o['nullable'] else 'VALUE'
    prods = {'VALUE': [('WORD',), ('LIST',), ('MAP',)]}
    if o['nullable']:
        prods['LIST_ITEM'] = [('VALUE',), None]
    if o['top'] == 'value':
        prods['E'] = [('VALUE',)]
        prods['LIST'] = llparser.ListProds('[', item, delim, ']', allow_final_delimiter=_afd(o))
        prods['MAP'] = llparser.MapProds('{', 'WORD', ':', 'VALUE', ',', '}', allow_final_delimiter=o['mapafd'])
    elif o['top'] == 'optional':
        prods['E'] = [('WORD', 'OLIST', 'OMAP')]
        prods['OLIST'] = llparser.ListProds('[', item, delim, ']', allow_final_delimiter=_afd(o), optional=True)
        prods['OMAP'] = llparser.MapProds('{', 'WORD', ':', 'VALUE', ',', '}', allow_final_delimiter=o['mapafd'], optional=True)
        prods['LIST'] = llparser.ListProds('[', item, delim, ']', allow_final_delimiter=_afd(o))
        prods['MAP'] = llparser.MapProds('{', 'WORD', ':', 'VALUE', ',', '}', allow_final_delimiter=o['mapafd'])
    elif o['top'] == 'args':
        prods['E'] = [('VALUE',)]
        prods['VALUE'] = [('WORD', 'OARGS'), ('LIST',), ('MAP',)]
        prods['OARGS'] = llparser.ListProds('<', 'VALUE', delim, '>', allow_final_delimiter=_afd(o), optional=True)
        prods['LIST'] = llparser.ListProds('[', item, delim, ']', allow_final_delimiter=_afd(o))
        prods['MAP'] = llparser.MapProds('{', 'WORD', ':', 'VALUE', ',', '}', allow_final_delimiter=o['mapafd'])
    elif o['top'] == 'pre':
        prods['E'] = [('VALUE',)]
        prods['VALUE'] = [('REC',), ('LIST',), ('MAP',)]
        prods['REC'] = [('OARGS', 'WORD')]
        prods['OARGS'] = llparser.ListProds('<', 'VALUE', delim, '>', allow_final_delimiter=_afd(o), optional=True)
        prods['LIST'] = llparser.ListProds('[', item, delim, ']', allow_final_delimiter=_afd(o))
        prods['MAP'] = llparser.MapProds('{', 'WORD', ':', 'VALUE', ',', '}', allow_final_delimiter=o['mapafd'])
    elif o['top'] == 'decls':
        prods['E'] = [('DECLS',)]
        prods['DECLS'] = llparser.ListProds(None, 'DECL', ';', None)
        prods['DECL'] = [('WORD', '=', 'VALUE')]
        prods['VALUE'] = [('WORD', 'OARGS'), ('LIST',), ('MAP',)]
        prods['OARGS'] = llparser.ListProds('<', 'VALUE', delim, '>', allow_final_delimiter=_afd(o), optional=True)
        prods['LIST'] = llparser.ListProds('[', item, delim, ']', allow_final_delimiter=_afd(o))
        prods['MAP'] = llparser.MapProds('{', 'WORD', ':', 'VALUE', ',', '}', allow_final_delimiter=o['mapafd'])
    elif o['top'] == 'rows':
        prods = {'E': [('ROWS',)], 'ROWS': llparser.ListProds('[', 'ROW', ';', ']', allow_final_delimiter=False),
                 'ROW': llparser.ListProds(None, 'WORD', delim, None)}
    elif o['top'] == 'baremap':
        prods['E'] = [('TOPMAP',)]
        prods['TOPMAP'] = llparser.MapProds(None, 'WORD', ':', 'VALUE', ',', None, allow_final_delimiter=o['mapafd'])
        prods['LIST'] = llparser.ListProds('[', item, delim, ']', allow_final_delimiter=_afd(o))
        prods['MAP'] = llparser.MapProds('{', 'WORD', ':', 'VALUE', ',', '}', allow_final_delimiter=o['mapafd'])
    else:   # bare: a bracket-less list at the top, bracketed lists / maps inside
        prods['E'] = [('TOPLIST',)]
        prods['TOPLIST'] = llparser.ListProds(None, item, delim, None, allow_final_delimiter=(False if o['afd'] == 'no' else None))
        prods['LIST'] = llparser.ListProds('[', item, delim, ']', allow_final_delimiter=_afd(o))
        prods['MAP'] = llparser.MapProds('{', 'WORD', ':', 'VALUE', ',', '}', allow_final_delimiter=o['mapafd'])
    # the order in which the symbols are listed is a configuration dimension (helpers before users, ...)
    items = list(prods.items())
    if order == 1:
        items.reverse()
    elif order == 2:
        items = items[1:] + items[:1]
    elif order == 3:
        items.sort(key=lambda kv: kv[0])
    p = llparser.LLParser(TOK, synonyms=SYN, productions=dict(items))
    _PARSERS[key] = p
    return p


def to_text(toks, rnd):
    out = []
    for i, t in enumerate(toks):
        out.append(t)
        if i + 1 < len(toks):
            k = rnd.random()
            need = t[0].isalnum() and toks[i + 1][0].isalnum()
            if k < 0.25 and not need:
                sep = ''
            elif k < 0.6:
                sep = ' '
            elif k < 0.75:
                sep = '\n  '
            elif k < 0.83:
                sep = ' # note [a, {b: c},]\n'
            elif k < 0.9:
                # a comment ends at the line feed only: form feed, carriage return, FS/GS, NEL are ordinary characters in it
                sep = ' # note\x0c [a, \x1d{b: c},]\r\x85 x\u2028 y\n'
            else:
                sep = '  \n\n\t'
            out.append(sep)
    lead = ['', ' ', '# head\n', '\n'][rnd.randrange(4)]
    return lead + ''.join(out) + ['', ' ', '\n', ' # tail'][rnd.randrange(4)]


def unwrap(x):
    from ak.llparser import TElement
    if isinstance(x, TElement):
        if x.is_leaf():
            return unwrap(x.value)
        return ('NODE', x.name, [unwrap(c) for c in x.value])
    if isinstance(x, list):
        return [unwrap(c) for c in x]
    if isinstance(x, dict):
        return {'__dict__': [[k, unwrap(v)] for k, v in x.items()]}
    return x


def expect_py(e):
    t = e['t']
    if t == 'str':
        return e['s']
    if t == 'None':
        return None
    if t == 'list':
        return [expect_py(x) for x in e['es']]
    return {'__dict__': [[kv[0], expect_py(kv[1])] for kv in e['kvs']]}


def wrap_args(w):
    """expected value under the "args" top form: VALUE nodes are kept (VALUE -> WORD [ARGS] is not squashable)"""
    if w is None:
        return None
    if isinstance(w, list):
        return ('NODE', 'VALUE', [[wrap_args(x) for x in w]])
    if isinstance(w, dict):
        return ('NODE', 'VALUE', [{'__dict__': [[k, wrap_args(v)] for k, v in w['__dict__']]}])
    return ('NODE', 'VALUE', [w, None])


def norm(x):
    """forget which wrapper nodes the generic cleanup keeps (not part of the property): a node with one child is
    its child; a node [word, None] (a word followed by an absent optional container) is ('A', word)"""
    if isinstance(x, tuple) and x and x[0] == 'NODE':
        kids = [norm(c) for c in x[2]]
        if len(kids) == 1:
            return kids[0]
        if len(kids) == 2 and isinstance(kids[0], str) and kids[1] is None:
            return ('A', kids[0])
        if len(kids) == 2 and isinstance(kids[1], str) and kids[0] is None:
            return ('A', kids[1])         # the absent optional container stands before the word
        return ('N', kids)
    if isinstance(x, list):
        return [norm(c) for c in x]
    if isinstance(x, dict):
        return {'__dict__': [[k, norm(v)] for k, v in x['__dict__']]}
    return x


def run_case(job):
    case, seed = job
    from ak.llparser import ParsingError, Error
    o = case['opt']
    try:
        p = parser_for(o, seed % 4)
    except Exception as e:
        return 'constructing the parser for options %s raised %s: %s' % (o, type(e).__name__, str(e)[:80])
    rnd = random.Random(seed)
    toks = list(case['toks'])
    want = expect_py(case['expect'])
    if o['top'] == 'optional':
        # WORD LIST? MAP?: the datum is put into the matching optional slot, the other slot is absent
        prefix = ['w']
        if isinstance(want, list):
            full_want = ('NODE', 'E', ['w', want, None])
        elif isinstance(want, dict):
            full_want = ('NODE', 'E', ['w', None, want])
        else:
            toks = []
            full_want = ('NODE', 'E', ['w', None, None])
        toks = prefix + toks
    elif o['top'] in ('args', 'pre'):
        full_want = ('NODE', 'E', [wrap_args(want)])
    elif o['top'] == 'decls':
        # the top list becomes  w = v1 ; w = v2 ; ...   (items of the datum's top list, split at nesting depth 0)
        items, cur, depth = [], [], 0
        for t in toks[1:-1]:
            if t in '[{':
                depth += 1
            elif t in ']}':
                depth -= 1
            if t == ',' and depth == 0 and o['delim']:
                items.append(cur)
                cur = []
            else:
                cur.append(t)
                if not o['delim'] and depth == 0:
                    items.append(cur)
                    cur = []
        if cur:
            items.append(cur)
        if o['delim'] and toks[1:-1] and toks[-2] == ',':
            return None                   # a final delimiter of the top list has no counterpart here
        wl = want if isinstance(want, list) else []
        if len(items) != len(wl) or any(x is None for x in wl):
            return None                   # 'w = <nothing>' is not a declaration
        toks = []
        for i, it in enumerate(items):
            toks += (['w', '='] + it + ([';'] if i + 1 < len(items) else []))
        full_want = ('NODE', 'E', [[('NODE', 'DECL', ['w', '=', wrap_args(x)]) for x in wl]])
    elif o['top'] == 'rows':
        # the items of the datum's top list are the rows: an atom is a row of one word, [] an empty row
        items = want
        toks = ['[']
        for i, it in enumerate(items):
            toks += ([it] if isinstance(it, str) else []) + ([';'] if i + 1 < len(items) else [])
        toks.append(']')
        full_want = ('NODE', 'E', [[[it] if isinstance(it, str) else [] for it in items]])
    elif o['top'] == 'baremap':
        toks = toks[1:-1]              # the top map has no brackets; no pairs = empty text = {}
        full_want = ('NODE', 'E', [want])     # a final delimiter is taken (or refused: bad) as in a map with brackets
    elif o['top'] == 'bare':
        toks = toks[1:-1]              # the top list has no brackets
        full_want = ('NODE', 'E', [want])
        if toks and toks[-1] == ',' and not o['nullable']:
            case = dict(case, bad=True)    # a bracket-less list never takes a final delimiter (with nullable items the
                                           # trailing delimiter is followed by an empty item: the spec renders that only
                                           # for a last item that is empty)
    else:
        full_want = ('NODE', 'E', [want])
    text = to_text(toks, rnd) if toks else ''
    try:
        got = unwrap(p.parse(text))
        outcome = 'ok'
    except ParsingError:
        outcome = 'ParsingError'
    except Error as e:
        outcome = type(e).__name__
    except Exception as e:
        return 'parse(%r) with options %s raised %s: %s' % (text, o, type(e).__name__, str(e)[:80])
    if case['bad']:
        if outcome == 'ok':
            return 'options %s: a final delimiter is not allowed but %r was accepted as %r' % (o, text, got)
        return None
    if outcome != 'ok':
        return 'options %s: %r raises %s, expected value %r' % (o, text, outcome, full_want)
    if norm(got) == norm(full_want):
        # a flat map of words is also parsed by a map template whose key and value are the SAME symbol
        if o['top'] == 'value' and isinstance(want, dict) and toks.count('{') == 1 and '[' not in toks:
            from ak import llparser
            key = 'samesym%d' % o['mapafd']
            if key not in _PARSERS:
                _PARSERS[key] = llparser.LLParser(TOK, synonyms=SYN, productions={
                    'E': [('MAP',)], 'MAP': llparser.MapProds('{', 'WORD', ':', 'WORD', ',', '}', allow_final_delimiter=o['mapafd'])})
            try:
                got2 = unwrap(_PARSERS[key].parse(text))
            except Exception as e:
                return 'map with key symbol = value symbol: %r raised %s' % (text, type(e).__name__)
            if norm(got2) != norm(full_want):
                return 'map template with the same symbol for keys and values: %r gives %r, the text denotes %r' % (text, got2, full_want)
        return None
    return 'options %s: %r gives %r, the text denotes %r' % (o, text, got, full_want)


_SPAN_P = []


def span_check(items, text):
    """a list whose items are words and one-line text literals << ... >> (a 'span' token, like the /* */ comments
    between them): every item is exactly its own text"""
    from ak import llparser
    if not _SPAN_P:
        _SPAN_P.append(llparser.LLParser(
            r"(?P<SPACE>\s+)|(?P<COMMENT>/\*)|(?P<TXT><<)|(?P<WORD>[a-z][a-z0-9]*)|(?P<COMMA>,)|(?P<BO>\[)|(?P<BC>\])|(?P<CO>\{)|(?P<CC>\})|(?P<COLON>:)",
            synonyms={'COMMA': ',', 'BO': '[', 'BC': ']', 'CO': '{', 'CC': '}', 'COLON': ':'},
            span_matchers={'COMMENT': r"(?P<END_COMMENT>(\*[^/]|[^*])*)\*/", 'TXT': r"(?P<END_TXT>(>[^>]|[^>])*)>>"},
            productions={'E': [('LIST',)], 'VALUE': [('WORD',), ('TXT',), ('LIST',), ('MAP',)],
                         'LIST': llparser.ListProds('[', 'VALUE', ',', ']'),
                         'MAP': llparser.MapProds('{', 'WORD', ':', 'VALUE', ',', '}')}))
    try:
        got = unwrap(_SPAN_P[0].parse(text))
    except Exception as e:
        return 'list with text literals %r raised %s' % (text, type(e).__name__)
    while isinstance(got, tuple) and len(got[2]) == 1:
        got = got[2][0]
    return None if got == items else 'list with text literals %r gives %r, the text denotes %r' % (text, got, items)


def span_cases(rnd, n):
    out = []
    bodies = ['one', 'x y', '', 'two > three', 'a, b]']
    comments = ['', '/* c */ ', '/* first\n second */ ', '/**/', '/* << not a literal >> */\n']
    for k in range(n):
        items, parts = [], []
        for _ in range(rnd.randrange(1, 5)):
            kind = rnd.randrange(4)
            pre = rnd.choice(comments)
            if kind == 0:
                w = rnd.choice(['a', 'bb', 'c1'])
                items.append(w)
                parts.append(pre + w)
            elif kind == 3:
                b = rnd.choice(bodies)
                items.append({'__dict__': [['k', b], ['m', [b, 'a']]]})
                parts.append(pre + '{k: <<%s>>, %sm: [<<%s>>, a]}' % (b, rnd.choice(comments), b))
            else:
                b = rnd.choice(bodies)
                items.append(b)
                parts.append(pre + '<<' + b + '>>')
        text = '[' + rnd.choice([', ', ',\n', ' , ']).join(parts) + rnd.choice(['', ' ', ' /* end */ ']) + ']'
        prob = span_check(items, text)
        if prob:
            out.append(({'span_items': items, 'text': text}, prob, []))
    return out


def seq_cases(rnd, n):
    """ProdSequence of terminals: any order, any length"""
    from ak import llparser
    p = llparser.LLParser(TOK, synonyms=SYN, productions={'E': [('SEQ',)], 'SEQ': llparser.ProdSequence('WORD', ',', ':')})
    probs = []
    for _ in range(n):
        k = rnd.randrange(0, 7)
        toks = [rnd.choice(['a', 'bb', ',', ':', 'c1']) for _ in range(k)]
        text = to_text(toks, rnd) if toks else ''
        try:
            got = unwrap(p.parse(text))
        except Exception as e:
            probs.append(({'seq': toks, 'text': text}, 'sequence %r raised %s' % (text, type(e).__name__), []))
            continue
        flat = got[2][0] if isinstance(got, tuple) else got
        if flat != toks:
            probs.append(({'seq': toks, 'text': text}, 'sequence %r gives %r, expected the elements %r in order' % (text, got, toks), []))
    # list / map templates as elements of a sequence ("nested to any depth")
    p2 = llparser.LLParser(TOK, synonyms=SYN, productions={
        'E': [('SEQ',)], 'SEQ': llparser.ProdSequence('WORD', 'SUB', 'M'),
        'SUB': llparser.ListProds('[', 'WORD', ',', ']'), 'M': llparser.MapProds('{', 'WORD', ':', 'WORD', ',', '}')})
    for toks, want in ((['a', '[', 'b', ',', 'c', ']', 'd'], ['a', ['b', 'c'], 'd']),
                       (['[', ']', '{', 'k', ':', 'v', '}'], [[], {'__dict__': [['k', 'v']]}]),
                       (['{', '}', 'x', '[', 'y', ',', ']'], [{'__dict__': []}, 'x', ['y']])):
        text = to_text(toks, rnd)
        try:
            got = unwrap(p2.parse(text))
        except Exception as e:
            probs.append(({'seq2': toks, 'text': text}, 'sequence %r raised %s' % (text, type(e).__name__), []))
            continue
        flat = got[2][0] if isinstance(got, tuple) else got
        if norm(flat) != want:
            probs.append(({'seq2': toks, 'text': text},
                          'a list / map that is an element of a sequence is not turned into a Python list / dict: %r gives %r, '
                          'expected the elements %r' % (text, got, want), ['ll.template_inside_sequence']))
    # a non-terminal element listed before an AnyTokenExcept element that also matches its first token
    for _ in range(n // 3):
        elems = [rnd.choice([('a',), ('bb',), (',',), ('k', ':', 'v'), ('c1', ':', 'a')]) for _ in range(rnd.randrange(0, 6))]
        toks = [t for e in elems for t in e] + [';']
        text = to_text(toks, rnd)
        prob = seq3_check(elems, text)
        if prob:
            probs.append(({'seq3': [list(e) for e in elems], 'text': text}, prob, []))
    return probs


def seq3_check(elems, text):
    from ak import llparser
    if 'seq3' not in _PARSERS:
        _PARSERS['seq3'] = llparser.LLParser(TOK, synonyms=SYN, productions={
            'E': [('SEQ', ';')], 'SEQ': llparser.ProdSequence('PAIR', llparser.AnyTokenExcept(';', ':')),
            'PAIR': [('WORD', ':', 'WORD')]})
    want = [e[0] if len(e) == 1 else ('NODE', 'PAIR', list(e)) for e in elems]
    try:
        got = unwrap(_PARSERS['seq3'].parse(text))
    except Exception as e:
        return 'sequence %r raised %s' % (text, type(e).__name__)
    seq = got[2][0] if isinstance(got, tuple) and got[2] else None
    if seq != want and not (want == [] and seq in (None, [], ';')):
        return 'sequence %r gives %r, expected the elements %r' % (text, got, want)
    return None


def run_case_reps(job):
    """one case under `reps` seeds: ([(seed, problem)], bad?, option set)"""
    c, seed0, reps = job
    if isinstance(c, str):
        c = json.loads(c)
    probs = []
    for k in range(reps):
        prob = run_case((c, seed0 + k))
        if prob:
            probs.append((seed0 + k, prob))
    return probs, c['bad'], json.dumps(c['opt'], sort_keys=True)


def run(ctx):
    ctx.assumptions += ['data over atoms a, b and keys k, m; a list in brackets whose last item is empty is not generated (with a nullable '
                        'item symbol "[a,]" is inherently ambiguous; the documented reading "final delimiter" is adopted); at the top of a '
                        'bracket-less list "a," is [a, None]',
                        'sequences are exercised with terminal elements only']
    r = ctx.tlc('llparser/LLTemplates.tla', 'SPECIFICATION Spec\nCHECK_DEADLOCK FALSE\nCONSTANTS\n  Depth = 1\n  Width = %d\n  Emit = TRUE\n  Tops = {}\n'
                'INVARIANT FinalDelimiterAddsNothing\n' % (2 if ctx.quick else 3), workers=16, timeout=3000, heap='12g')
    cases = [c for c in r.printed if isinstance(c, dict)]
    if not ctx.quick:
        r = ctx.tlc('llparser/LLTemplates.tla', 'SPECIFICATION Spec\nCHECK_DEADLOCK FALSE\nCONSTANTS\n  Depth = 2\n  Width = 2\n  Emit = TRUE\n  Tops = {}\n',
                    workers=16, timeout=7200, heap='16g', decode=False)
        cases += [c for c in r.printed if c.startswith('{')]        # JSON text, decoded in the workers (memory)
        del r
    if ctx.quick:
        # containers of three entries (order of the later entries, repeated keys) for the plain top form
        r = ctx.tlc('llparser/LLTemplates.tla', 'SPECIFICATION Spec\nCHECK_DEADLOCK FALSE\nCONSTANTS\n  Depth = 1\n  Width = 3\n  Emit = TRUE\n'
                    '  Tops = {"value"}\n', workers=16, timeout=3000, heap='12g')
        cases += [c for c in r.printed if isinstance(c, dict)]
    if len(cases) < 3000:
        raise Machinery('LLTemplates emitted %d cases' % len(cases))
    reps = 4
    jobs = [(c, ctx.seed * 1000 + i * 7, reps) for i, c in enumerate(cases)]
    res = pmap(run_case_reps, jobs, chunk=500)
    del jobs
    nbad, optsets = 0, set()
    for c, (probs, isbad, optkey) in zip(cases, res):
        nbad += bool(isbad)
        optsets.add(optkey)
        for seed, prob in probs:
            ctx.violation({'case': json.loads(c) if isinstance(c, str) else c, 'seed': seed}, prob)
    for case, prob, tags in seq_cases(ctx.rnd, 300 if ctx.quick else 5000):
        ctx.violation(case, prob, tags)
    n_span = 400 if ctx.quick else 6000
    for case, prob, tags in span_cases(ctx.rnd, n_span):
        ctx.violation(case, prob, tags)
    ctx.extra['lists_with_span_token_items'] = n_span
    bad = json.loads(json.dumps(next(c for c in cases if isinstance(c, dict) and c['expect']['t'] == 'list' and c['expect']['es'] and not c['bad']
                                     and c['opt']['top'] == 'value')))
    bad['expect']['es'] = bad['expect']['es'] + [{'t': 'str', 's': 'zz'}]
    ctx.selftest(run_case((bad, 1)) is not None, 'replay accepted a corrupted expected value')
    # growth item: navigation over cleaned trees (DRIFT only, see drivers/treenav.py)
    from drivers import treenav
    treenav.run(ctx)
    ctx.traces = len(cases) * reps
    ctx.exhaustive = False
    ctx.extra['cases'] = len(cases)
    ctx.extra['bad_final_delimiter_cases'] = nbad
    ctx.extra['option_sets'] = len(optsets)
    for c in (cases[0], cases[len(cases) // 2], cases[-1]):
        c = json.loads(c) if isinstance(c, str) else c
        ctx.sample({'opt': c['opt'], 'tokens': c['toks'], 'bad': c['bad']})


def replay(ctx, case):
    if 'seq2' in case:
        for c, prob, tags in seq_cases(random.Random(1), 0):
            if c.get('seq2') == case['seq2']:
                return prob
        return None
    if 'span_items' in case:
        return span_check(case['span_items'], case['text'])
    if 'seq3' in case:
        return seq3_check([tuple(e) for e in case['seq3']], case['text'])
    if 'seq' in case:
        from ak import llparser
        p = llparser.LLParser(TOK, synonyms=SYN, productions={'E': [('SEQ',)], 'SEQ': llparser.ProdSequence('WORD', ',', ':')})
        got = unwrap(p.parse(case['text']))
        flat = got[2][0] if isinstance(got, tuple) else got
        return None if flat == case['seq'] else 'sequence gives %r' % (got,)
    return run_case((case['case'], case['seed']))
