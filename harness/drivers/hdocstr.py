"""Doc string parsing of ak/hdoc.py (growth item beyond the listed properties; run as part of the C10 check, DRIFT only).

specs/hdoc/HDocStr.tla  I-spec Parse (the steps of _ParsedDocStr.__init__) + TLC: TagsInSourceOrder, BodyTrimmed,
                        NothingLost, DedentIsUniform on every doc string of the bounded family
Binding (spec -> code): every doc string TLC emits is materialised as text and parsed by the real _ParsedDocStr.
"""
from vcheck import Machinery, pmap


def _cfg(maxlines, emit):
    return ('SPECIFICATION Spec\nCHECK_DEADLOCK FALSE\nCONSTANTS\n  MaxLines = %d\n  Inds = {0, 2, 4}\n  Emit = %s\n'
            'INVARIANT TagsInSourceOrder\nINVARIANT BodyTrimmed\nINVARIANT NothingLost\nINVARIANT DedentIsUniform\n' % (
                maxlines, 'TRUE' if emit else 'FALSE'))


def _text(l):
    body = {'sp': '', 'text': 'word%d' % l['n'], 'tags': '#t%da #t%db' % (l['n'], l['n']), 'bad': '#t%da word' % l['n']}[l['k']]
    return ' ' * l['ind'] + body


def check_doc(case):
    try:
        from ak.hdoc import _ParsedDocStr
    except ImportError:
        return 'UNAVAILABLE'
    try:
        return _check_doc(case, _ParsedDocStr)
    except (AttributeError, TypeError):
        return 'UNAVAILABLE'


def _check_doc(case, _ParsedDocStr):
    doc, want = case['doc'], case['parse']
    text = '\n'.join(_text(l) for l in doc)
    try:
        p = _ParsedDocStr(text)
        got = {'short': p.short_descr, 'body': list(p.body_lines), 'tags': list(p.tags), 'error': False}
    except AssertionError:
        got = {'error': True}
    if want['error'] != got['error']:
        return 'doc string %r: %s, spec says %s' % (text, 'assertion' if got['error'] else 'parsed', 'assertion' if want['error'] else 'parsed')
    if got['error']:
        return None
    ws = _text(want['short'][0]) if want['short'] else '-??-'
    wb = [_text(l) for l in want['body']]
    wt = ['t%d%s' % (t[0], t[1]) for t in want['tags']]
    if (got['short'], got['body'], got['tags']) != (ws, wb, wt):
        return 'doc string %r: parsed as %r, spec %r' % (text, (got['short'], got['body'], got['tags']), (ws, wb, wt))
    return None


def run(ctx):
    r = ctx.tlc('hdoc/HDocStr.tla', _cfg(4 if ctx.quick else 5, True), workers=16, timeout=3000, heap='12g')
    cases = [c for c in r.printed if isinstance(c, dict)]
    if len(cases) < 10000:
        raise Machinery('HDocStr emitted %d doc strings' % len(cases))
    res = pmap(check_doc, cases)
    if any(r == 'UNAVAILABLE' for r in res):
        ctx.note_drift('HDocStr: ak.hdoc no longer has the private doc string parser the growth item binds to: skipped')
        ctx.extra['hdoc_docstrings'] = {'docstrings': len(cases), 'skipped': True}
        return
    bad = 0
    for c, prob in zip(cases, res):
        if prob:
            bad += 1
            if bad <= 3:
                ctx.note_drift('HDocStr: ' + prob)
    wrong = next(c for c in cases if c['parse']['tags'])
    wrong = dict(wrong, parse=dict(wrong['parse'], tags=list(reversed(wrong['parse']['tags'])) + [[9, 'a']]))
    ctx.selftest(check_doc(wrong) is not None, 'HDocStr replay accepted a corrupted parse')
    ctx.extra['hdoc_docstrings'] = {'docstrings': len(cases), 'with_differences': bad}
