"""C11 - pretty-printed JSON-like data reads back as the same data.

specs/ppobj/PPJson.tla       printer acceptor (pushdown machine fed with the lexical items of the real output)
specs/ppobj/PPJsonCases.tla  builder of abstract value shapes
The driver scales shapes so that rendered lengths sweep the one-line / wrapping decisions, prints them with
the real PrettyPrinter (JSON and Python mode, whole and line by line), lexes the text with its own lexer and
lets TLC accept or reject every item stream.
"""
import ast
import json
import os
import re

from vcheck import Machinery

_LEX = re.compile(r'\s+|"([^"\\\n]*)"|(-?\d+(?:\.\d+)?(?:[eE][+-]?\d+)?)|([A-Za-z]+)|([{}\[\],:])')
KW = {'true': 'true', 'false': 'false', 'null': 'null', 'True': 'true', 'False': 'false', 'None': 'null'}


def cps(s):
    return [ord(c) for c in s]


def lex(text, json_mode):
    items, pos = [], 0
    while pos < len(text):
        m = _LEX.match(text, pos)
        if not m:
            return None, 'cannot lex at %d: %r' % (pos, text[pos:pos + 20])
        pos = m.end()
        if m.group(1) is not None:
            items.append({'k': 'scalar', 'kind': 'str', 's': cps(m.group(1))})
        elif m.group(2) is not None:
            lx = m.group(2)
            v = float(lx) if any(c in lx for c in '.eE') else int(lx)
            items.append({'k': 'scalar', 'kind': 'num', 's': cps(repr(v))})
        elif m.group(3) is not None:
            w = m.group(3)
            ok = (w in ('true', 'false', 'null')) if json_mode else (w in ('True', 'False', 'None'))
            if not ok:
                return None, 'unexpected word %r' % w
            items.append({'k': 'scalar', 'kind': KW[w], 's': []})
        elif m.group(4) is not None:
            items.append({'k': m.group(4)})
    # a string directly followed by ':' is a dict key
    for i, it in enumerate(items[:-1]):
        if it['k'] == 'scalar' and it.get('kind') == 'str' and items[i + 1]['k'] == ':':
            items[i] = {'k': 'key', 's': it['s']}
    return items, None


def enc(v):
    if isinstance(v, dict):
        return {'t': 'dict', 'es': [{'k': cps(k), 'v': enc(x)} for k, x in v.items()]}
    if isinstance(v, list):
        return {'t': 'list', 'es': [enc(x) for x in v]}
    if isinstance(v, str):
        return {'t': 'scalar', 'kind': 'str', 's': cps(v)}
    if v is True:
        return {'t': 'scalar', 'kind': 'true', 's': []}
    if v is False:
        return {'t': 'scalar', 'kind': 'false', 's': []}
    if v is None:
        return {'t': 'scalar', 'kind': 'null', 's': []}
    return {'t': 'scalar', 'kind': 'num', 's': cps(repr(v))}


def nest(v, depth, kind):
    for i in range(depth):
        v = {'n%d' % i: v, 'a': 1} if (kind + i) % 2 else [v]
    return v


def scale(shape, pad, counter):
    t = shape['t']
    if t == 's':
        counter[0] += 1
        k = counter[0] % 6
        return ['x' * pad, counter[0] * 7, 1.5 * counter[0], True, None, 'y' * (pad // 3)][k]
    if t == 'list':
        return [scale(s, pad, counter) for s in shape['es']]
    keys = ['kb', 'ka', 'k' + 'c' * (pad // 4)]
    return {keys[i % 3] + ('' if i < 3 else str(i)): scale(s, pad, counter) for i, s in enumerate(shape['es'])}


def gen_values(ctx, shapes):
    vals = []
    step = 1 if not ctx.quick else 2
    # A. flat dict, total one-line length sweeping 150..260, at nesting offsets
    for total in range(150, 262, step):
        n = 6
        body = total - 2 - n * (len('"k0": ""') + 2) + 2
        d = {}
        for i in range(n):
            ln = max(0, body // n + (1 if i < body % n else 0))
            d['k%d' % ((i * 5) % n)] = 'v' * ln
        for depth in (0, 1, 3):
            vals.append(nest(d, depth, total))
    # B. flat lists: scalars of length L, N elements; last value also occurs earlier; lines fill at every position
    for L in (1, 2, 3, 7, 23, 49, 74, 75, 76, 148, 149, 150, 151):
        for N in sorted(set([1, 2, 3, 200 // (L + 2) - 1, 200 // (L + 2), 200 // (L + 2) + 1, 200 // (L + 2) + 2,
                             2 * (150 // (L + 2)) + 1, 3 * (150 // (L + 2)) + 2])):
            if N <= 0 or N * L > 3000:
                continue
            lst = [int('1' + '0' * (L - 1)) + (i % 3) for i in range(N)] if L < 18 else ['s' * (L - 3) + str(i % 3) for i in range(N)]
            for depth in (0, 2, 5, 10):
                vals.append(nest(lst, depth, N))
    for total in range(180, 215, 1):
        lst = ['ab'] * 3 + ['c' * (total - 2 - 3 * 6 - 4)]
        vals.append(lst)
        vals.append({'k': lst, 'z': [1, 2, lst[-1]]})
    # C. special scalars and empty containers
    vals += [[True, False], [1, True, 2.5, False], {'flags': [True, True, False] * 30}, [[], {}, [[]], [{}], {'a': []}][0],
             [], {}, [[]], [{}], {'a': []}, {'a': {}, 'b': [[], {}]}, [0, -1, 1.0, -2.5, 1e22, 1e-7, 1e+20, 2.5e-10, 7e+100, -3e+30, 2.0, 100.0, True, False, None, ''],
             # a value next to the string that reads like it; floats with 16-17 significant digits and very small ones
             [1, '1', '404', 404, None, 'None', True, 'True', 2.5, '2.5', [], '[]', {}, '{}', 'null', 'true'],
             {'a': [0, '0', 0.0, '0.0', False, 'False']}, [1, 1.0, True, '1.0'],
             [0.1 + 0.2, 1 / 3, 3.141592653589793, 1e-13, 2.220446049250313e-16, 123456789.12345679, -0.30000000000000004],
             {'pi': 3.141592653589793, 'eps': 2.220446049250313e-16, 'third': 1 / 3, 'l': [1e-13] * 40},
             {'€uro': 'é', 'Z': 1, 'a': 2, 'B': 3, 'aa': 4, '': 5, ' ': 6}, [[1, [2, [3, [4, [5]]]]]], 'just a string', 12, None,
             # characters that are not "printable" for str.isprintable() without being control characters (no-break space,
             # soft hyphen, zero-width space), next to Latin-1 and astral characters
             ['10\u00a0kg', 'soft\u00adhyphen', 'caf\u00e9\u200bbar', '\U0001F600\u00a0'], {'k\u00a0': 'v\u00ad', '\u00e9\u200b': 1}]
    # D. TLC-enumerated shapes, scaled
    pads = (1, 60, 190) if ctx.quick else (1, 30, 60, 95, 190)
    for i, sh in enumerate(shapes):
        for p in pads:
            if ctx.quick and (i + p) % 3:
                continue
            vals.append(scale(sh, p, [i]))
    return vals


def shared_values():
    """data in which one and the same object occurs several times (equal data must print the same)"""
    row = {'a': 1, 'b': 'x'}
    lst = [1, 'two', None]
    long_row = {'k%d' % i: 'v' * 20 for i in range(12)}
    nested = {'in': {'x': [1, 2]}, 'y': 0}
    return [[row, row], [row] * 3, {'p': row, 'q': row, 'r': [row]}, [lst, lst], {'a': lst, 'b': [lst, lst]},
            [long_row, long_row], [nested, nested, row], [[], []] * 2, [{}, {}]]


def shuffle_dicts(v, rnd):
    if isinstance(v, dict):
        ks = list(v)
        rnd.shuffle(ks)
        return {k: shuffle_dicts(v[k], rnd) for k in ks}
    if isinstance(v, list):
        return [shuffle_dicts(x, rnd) for x in v]
    return v


def run(ctx):
    from ak.ppobj import PrettyPrinter
    ctx.assumptions += ['values: dicts with string keys, lists, strings without quote/backslash/control characters, ints, '
                        'finite floats, booleans, None', 'the lexer of the driver (harness/drivers/c11.py) is trusted; '
                        'numbers are compared after parsing the lexeme']
    r = ctx.tlc('ppobj/PPJsonCases.tla', 'SPECIFICATION Spec\nCHECK_DEADLOCK FALSE\nCONSTANTS\n  Depth = 2\n  Width = 2\n'
                '  Emit = TRUE\nINVARIANT Bounded\n', workers=1, timeout=1800)
    shapes = [s for s in r.printed if isinstance(s, dict)]
    if len(shapes) < 1000:
        raise Machinery('PPJsonCases emitted %d shapes' % len(shapes))
    vals = [shuffle_dicts(v, ctx.rnd) for v in gen_values(ctx, shapes)]
    vals += shared_values()          # after the shuffle, which would copy the shared objects
    printers = {True: PrettyPrinter(fmt_json=True), False: PrettyPrinter(fmt_json=False)}
    cases, meta = [], []
    crosscheck_bad = 0
    for i, v in enumerate(vals):
        for jm in (True, False):
            try:
                if i % 2 == 0:
                    str(printers[jm](v))          # the same printer object is used for a coloured rendering first
                res = printers[jm](v, no_color=True)
                text = res.plain_text()
                list(printers[jm](v, no_color=True))
            except Exception as ex:          # noqa
                from vcheck import real_code_failure
                msg = real_code_failure(ex)
                if msg is None:
                    raise
                ctx.violation({'value': v, 'json': jm}, 'printing the value: ' + msg)
                continue
            if '\x1b' in str(res):
                ctx.violation({'value': v, 'json': jm}, 'no_color output contains an escape character')
                continue
            lines = '\n'.join(ln.plain_text() for ln in printers[jm](v, no_color=True))
            if lines == text:
                # all lines collected first, turned into text afterwards
                collected = list(printers[jm](v, no_color=True))
                lines = '\n'.join(ln.plain_text() for ln in collected)
            if lines != text:
                ctx.violation({'value': v, 'json': jm}, 'line iteration gives different text than the whole result')
                continue
            items, err = lex(text, jm)
            if items is None:
                ctx.violation({'value': v, 'json': jm}, 'output is not lexable as %s: %s' % ('JSON' if jm else 'Python', err))
                continue
            cases.append({'v': enc(v), 'items': items})
            meta.append((v, jm, text))
            try:
                back = json.loads(text) if jm else ast.literal_eval(text)
                if back != v:
                    crosscheck_bad += 1
            except Exception:
                crosscheck_bad += 1
    # synthetic negative self-tests
    good = {'v': enc({'b': [1, 2], 'a': 'x'}), 'items': lex('{"a": "x", "b": [1, 2]}', True)[0]}
    bad1 = {'v': good['v'], 'items': lex('{"a": "x", "b": [1]}', True)[0]}           # element dropped
    bad2 = {'v': good['v'], 'items': lex('{"b": [1, 2], "a": "x"}', True)[0]}         # not sorted
    bad3 = {'v': good['v'], 'items': lex('{"a": "x" "b": [1, 2]}', True)[0]}          # comma lost
    bad4 = {'v': good['v'], 'items': lex('{"a": "x", "b": [1, 2, 2]}', True)[0]}      # duplicated
    allc = cases + [good, bad1, bad2, bad3, bad4]
    verd = {}
    CH = 4000
    for off in range(0, len(allc), CH):
        part = allc[off:off + CH]
        path = os.path.join(ctx.tmp, 'c11_%d.ndjson' % off)
        with open(path, 'w') as f:
            for c in part:
                f.write(json.dumps(c) + '\n')
        r = ctx.tlc('ppobj/PPJson.tla', 'SPECIFICATION Spec\nCHECK_DEADLOCK FALSE\n', env={'CASES': path}, workers=16,
                    timeout=3600, heap='12g')
        os.unlink(path)
        for ln in r.raw_printed:
            m = re.match(r'<<"(ACCEPT|REJECT)", (\d+)(?:, "([^"]*)", (\d+))?>>', ln)
            if m:
                verd[off + int(m.group(2))] = (m.group(1), m.group(3), m.group(4))
    if len(verd) != len(allc):
        raise Machinery('PPJson gave %d verdicts for %d cases' % (len(verd), len(allc)))
    n = len(cases)
    ctx.selftest(verd[n + 1][0] == 'ACCEPT' and all(verd[n + k][0] == 'REJECT' for k in (2, 3, 4, 5)),
                 'PPJson self-test: %s' % [verd[n + k] for k in range(1, 6)])
    for i in range(1, n + 1):
        if verd[i][0] == 'REJECT':
            v, jm, text = meta[i - 1]
            ctx.violation({'value': v, 'json': jm}, '%s-mode output does not read back as the value: %s at item %s; output %r' % (
                'JSON' if jm else 'Python', verd[i][1], verd[i][2], text[:300]))
    ctx.traces = n
    ctx.exhaustive = False
    ctx.extra['values'] = len(vals)
    ctx.extra['multi_line_outputs'] = sum(1 for m in meta if '\n' in m[2])
    ctx.extra['json_loads_or_literal_eval_disagreements'] = crosscheck_bad
    for i in (0, n // 2, n - 1):
        ctx.sample({'json_mode': meta[i][1], 'output': meta[i][2][:200]})


def replay(ctx, case):
    from ak.ppobj import PrettyPrinter
    v, jm = case['value'], case['json']
    ppr = PrettyPrinter(fmt_json=jm)
    str(ppr(v))
    if '\x1b' in str(ppr(v, no_color=True)):
        return 'no_color output contains an escape character'
    text = PrettyPrinter(fmt_json=jm)(v, no_color=True).plain_text()
    lines = '\n'.join(ln.plain_text() for ln in PrettyPrinter(fmt_json=jm)(v, no_color=True))
    if lines == text:
        collected = list(PrettyPrinter(fmt_json=jm)(v, no_color=True))
        lines = '\n'.join(ln.plain_text() for ln in collected)
    if lines != text:
        return 'line iteration differs'
    items, err = lex(text, jm)
    if items is None:
        return err
    path = os.path.join(ctx.tmp, 'c11r.ndjson')
    with open(path, 'w') as f:
        f.write(json.dumps({'v': enc(v), 'items': items}) + '\n')
    r = ctx.tlc('ppobj/PPJson.tla', 'SPECIFICATION Spec\nCHECK_DEADLOCK FALSE\n', env={'CASES': path}, workers=1)
    for ln in r.raw_printed:
        if ln.startswith('<<"REJECT"'):
            return 'rejected: ' + ln
    return None
