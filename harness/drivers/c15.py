"""C15 - SQL filters select exactly the intended rows; values are always bound.

specs/sql/SqlFilter.tla  three-valued evaluation of condition lists over a fixed table (A-spec Select),
                         bind list in placeholder order (Binds), builder of condition lists
Each emitted case is executed through SqlMethod on a real sqlite3 connection (cursor.execute recorded).
"""
import json
import re
import sqlite3

from vcheck import Machinery, pmap, guarded

_TOK = re.compile(r"\s+|[A-Za-z_][A-Za-z_0-9.]*|\?|%s|\(|\)|,|!=|<=|>=|=|<|>|[01]\b")
_WORDS = {'SELECT', 'id', 'a', 'b', '_a', '_b', 'FROM', 't', 'tu', 'WHERE', 'AND', 'OR', 'IN', 'NOT', 'IS', 'NULL', 'LIKE', 'ORDER',
          'BY', 'DESC', 'FALSE'}


def _val(v):
    if v['t'] == 'null':
        return None
    if v['t'] == 'int':
        return v['v']
    return ''.join(v['v'])


class _Cur:
    def __init__(self, cur, log):
        self._c, self._log = cur, log

    def execute(self, sql, params=()):
        self._log.append((sql, list(params)))
        return self._c.execute(sql, params)

    def __iter__(self):
        return iter(self._c)

    def __getattr__(self, n):
        return getattr(self._c, n)


class _Conn:
    def __init__(self, conn):
        self._conn, self.log = conn, []

    def cursor(self):
        return _Cur(self._conn.cursor(), self.log)


class _PctCur(_Cur):
    """cursor of a driver with the 'format' parameter style: one %s per bound value, nothing else"""
    def execute(self, sql, params=()):
        self._log.append((sql, list(params)))
        if '?' in sql:
            raise sqlite3.ProgrammingError("'?' in a statement for a %s-style driver")
        return self._c.execute(sql.replace('%s', '?'), params)


class _PctConn(_Conn):
    """recognised by SqlMethod as a mysql.connector connection (the type name is what it looks at)"""
    def cursor(self):
        return _PctCur(self._conn.cursor(), self.log)


_PctConn.__module__ = 'mysql.connector.connection'


_DB = {}


def _db(table):
    key = json.dumps(table)
    if key not in _DB:
        conn = sqlite3.connect(':memory:')
        conn.execute('CREATE TABLE t (id INTEGER PRIMARY KEY, a, b)')
        conn.execute('CREATE TABLE tu (id INTEGER PRIMARY KEY, _a, _b)')     # same rows, column names start with '_'
        for r in table:
            conn.execute('INSERT INTO t VALUES (?, ?, ?)', (r['id'], _val(r['a']), _val(r['b'])))
            conn.execute('INSERT INTO tu VALUES (?, ?, ?)', (r['id'], _val(r['a']), _val(r['b'])))
        conn.commit()
        _DB.clear()
        _DB[key] = conn
    return _DB[key]


def _ren(c, under):
    """the same condition over table tu, whose columns are called _a and _b (keyword filters keep their order)"""
    if not under:
        return c
    c = dict(c)
    if c.get('f') in ('a', 'b'):
        c['f'] = '_' + c['f']
    if c.get('k') == 'static':
        c['under'] = True
    if 'cs' in c:
        c['cs'] = [_ren(x, under) for x in c['cs']]
    return c


STATIC = {'colcol': 'a = b', 'lit': "a = 'a'"}


def _static_text(c, under):
    t = STATIC[c['form']]
    return t.replace('a =', '_a =').replace('= b', '= _b') if under else t


def _simple(c, variant):
    r = _simple_tuple(c, variant)
    if variant % 7 in (3, 6) and isinstance(r, tuple):
        # the same condition given as an explicitly constructed condition object
        from ak.mtd_sql import SqlFieldValCondition
        return SqlFieldValCondition(r[0], '=', r[1]) if len(r) == 2 else SqlFieldValCondition(*r)
    return r


def _simple_tuple(c, variant):
    k = c['k']
    if k == 'static':
        return _static_text(c, c.get('under', False))
    if k == 'cmp':
        v = _val(c['v'])
        if c['op'] == '=' and variant % 2:
            return (c['f'], v)
        return (c['f'], c['op'], v)
    if k == 'in':
        vals = [_val(x) for x in c['vs']]
        cont = [list, tuple, set][variant % 3] if len(vals) < 2 else [list, tuple][variant % 2]
        vals = cont(vals)
        if variant % 5 == 0 and not isinstance(vals, set):
            return (c['f'], '!=' if c['neg'] else '=', vals)
        op = 'NOT IN' if c['neg'] else 'IN'
        return (c['f'], op.lower() if variant % 4 == 1 else op, vals)
    if k == 'isnull':
        if variant % 2:
            return (c['f'], '!=' if c['neg'] else '=', None)
        return (c['f'], 'IS NOT NULL' if c['neg'] else 'IS NULL', None)
    if k == 'like':
        op = 'NOT LIKE' if c['neg'] else 'LIKE'
        return (c['f'], op.lower() if variant % 2 else op, ''.join(c['p']))
    raise ValueError(k)


def _shape(c):
    k = c['k']
    if k == 'cmp':
        return (k, c['f'], c['op'], c['v']['t'] == 'null')
    if k in ('in', 'kwin'):
        return (k, c['f'], c.get('neg'), len(c['vs']))
    if k == 'kw':
        return (k, c['f'], c['v']['t'] == 'null')
    if k == 'or':
        return (k, tuple(_shape(x) for x in c['cs']))
    if k == 'static':
        return (k, c['form'])
    if k == 'like':
        return (k, c['f'], c['neg'])
    return (k, c.get('f'), c.get('neg'))


@guarded(lambda m: (m, None))
def run_case(job):
    case, table, variant = job[:3]
    if isinstance(case, str):
        case = json.loads(case)
    style, under = (job[3], job[4]) if len(job) > 3 else (0, 0)
    from ak.mtd_sql import SqlMethod
    conn = (_PctConn if style else _Conn)(_db(table))
    mark = '%s' if style else '?'
    args, kwargs = [], {}
    for c in case['conds']:
        c = _ren(c, under)
        k = c['k']
        if k == 'none':
            args.append(None)
        elif k == 'kw':
            kwargs[c['f']] = _val(c['v'])
        elif k == 'kwin':
            kwargs[c['f']] = [_val(x) for x in c['vs']]
        elif k == 'or':
            cs = list(c['cs'])
            okw = {}
            # keyword operand of the OR group (appended after the positional ones, so only the last one qualifies):
            # f=value for an '=' comparison, f=None for an IS NULL test
            if cs and variant % 3 == 2:
                last = cs[-1]
                if last['k'] == 'cmp' and last['op'] == '=':
                    okw[last['f']] = _val(last['v'])
                    cs.pop()
                elif last['k'] == 'isnull' and not last['neg']:
                    okw[last['f']] = None
                    cs.pop()
            subs = [_simple(x, variant) for x in cs]
            args.append(SqlMethod._or(*subs, **okw))
        else:
            args.append(_simple(c, variant))
    m = SqlMethod('SELECT id, _a, _b FROM tu' if under else 'SELECT id, a, b FROM t', order_by='id')
    kw = dict(kwargs)
    if case['desc']:
        kw['_order_by'] = 'id DESC'
    try:
        if variant % 2:
            got = m.list(conn, *args, _as_scalars=True, **kw)
        else:
            got = [r[0] for r in m.all(conn, *args, **kw)]
    except Exception as e:
        return 'SqlMethod raised %s: %s (args %r %r)' % (type(e).__name__, str(e)[:100], args, kwargs), None
    want = case['rows']
    if got != want:
        return 'rows %s, three-valued logic selects %s (args %r %r; sql %r)' % (got, want, args, kwargs, conn.log[-1]), None
    sql, params = conn.log[-1]
    # static conditions go into the statement as they are: exactly as written, once each
    def statics(cs):
        for c in cs:
            if c['k'] == 'static':
                yield _static_text(c, under)
            elif c['k'] == 'or':
                yield from statics(c['cs'])
    skeleton = sql
    for t in statics(case['conds']):
        if t not in skeleton:
            return 'the static condition %r does not appear in the statement as written (sql %r)' % (t, sql), None
        skeleton = skeleton.replace(t, ' FALSE ', 1)
    sql_full, sql = sql, skeleton
    rest = _TOK.sub('', sql)
    words = set(re.findall(r'[A-Za-z_][A-Za-z_0-9.]*', sql.replace('%s', ' '))) - _WORDS
    if rest or words:
        return 'SQL text contains something that is not part of the statement skeleton: %r (sql %r)' % (rest or words, sql), None
    if sql.count(mark) != len(params) or sql.count('%s' if mark == '?' else '?'):
        return '%d placeholders %r but %d bound values (sql %r)' % (sql.count(mark), mark, len(params), sql), None
    wantb = [_val(v) for v in case['binds']]
    if params != wantb:
        return 'bound values %r, expected %r in placeholder order (sql %r)' % (params, wantb, sql), None
    # one / one_or_none
    def first(r):
        return r[0] if isinstance(r, tuple) else 'not a record: %r' % (r,)
    try:
        r1 = m.one_or_none(conn, *args, **kw)
        o1 = 'none' if r1 is None else first(r1)
    except ValueError:
        o1 = 'ValueError'
    w1 = 'none' if not want else (want[0] if len(want) == 1 else 'ValueError')
    if o1 != w1:
        return 'one_or_none gives %r, expected %r' % (o1, w1), None
    try:
        o2 = first(m.one(conn, *args, **kw))
    except ValueError:
        o2 = 'ValueError'
    w2 = want[0] if len(want) == 1 else 'ValueError'
    if o2 != w2:
        return 'one gives %r, expected %r' % (o2, w2), None
    # the same method object once more WITHOUT per-call options: records, in the order the method was declared with
    try:
        again = list(m.all(conn, *args, **kwargs))
    except Exception as e:
        return 'a later call without options raised %s: %s' % (type(e).__name__, str(e)[:80]), None
    if [first(r) for r in again] != sorted(want):
        return ('after calls with per-call options (_order_by=%r, _as_scalars) a call without options gives %r, expected the records %s in '
                'the declared order' % (kw.get('_order_by'), again[:6], sorted(want))), None
    # scalars that are falsy (0, '') are values, not "no row"
    if len(want) == 1:
        val = [_val(r['a']) for r in table if r['id'] == want[0]][0]
        if val is not None:
            m2 = SqlMethod('SELECT _a, id FROM tu' if under else 'SELECT a, id FROM t', order_by='id')
            for how in ('one', 'one_or_none'):
                try:
                    got1 = getattr(m2, how)(conn, *args, _as_scalars=True, **kwargs)
                except Exception as e:
                    got1 = '%s: %s' % (type(e).__name__, e)
                if got1 != val or type(got1) is not type(val):
                    return '%s(_as_scalars=True) over the single selected row gives %r, the value of its first column is %r' % (how, got1, val), None
    return None, (json.dumps([_shape(c) for c in case['conds']] + [case['desc'], variant % 60, style, under]), sql)


def unique_names(ctx):
    """growth item (DRIFT only): SqlMethodT._make_unique_names_list against specs/sql/UniqueNames.tla"""
    from ak.mcaller_sql import SqlMethodT
    cfg = ('SPECIFICATION Spec\nCHECK_DEADLOCK FALSE\nCONSTANTS\n  Pool = {"id", "id_1", "id_2", "n"}\n  MaxLen = 5\n  Emit = TRUE\n'
           'INVARIANT AllDistinct\nINVARIANT KeepsFirst\nINVARIANT RenamedFromOriginal\nPROPERTY Terminates\n')
    r = ctx.tlc('sql/UniqueNames.tla', cfg, workers=4, timeout=1200)
    seen = {}
    for c in r.printed:
        if isinstance(c, dict):
            seen[json.dumps(c['names'])] = c            # (lines are repeated when TLC checks the liveness property)
    if len(seen) < 1000:
        raise Machinery('UniqueNames emitted %d lists' % len(seen))
    bad = 0
    for c in seen.values():
        try:
            got = SqlMethodT._make_unique_names_list(list(c['names']))
        except AttributeError:
            ctx.note_drift('UniqueNames: SqlMethodT has no _make_unique_names_list any more: the growth item is skipped')
            break
        if list(got) != list(c['result']):
            bad += 1
            if bad <= 3:
                ctx.note_drift('UniqueNames: %s -> %s, I-spec %s' % (c['names'], got, c['result']))
    ctx.extra['unique_names_lists'] = {'lists': len(seen), 'differences': bad}


def _flatten_mmap(d, depth, pre=()):
    """nested dict -> ({path: leaf}, {prefix: [keys in dict order]})"""
    leaves, order = {}, {pre: list(d)}
    for k, v in d.items():
        if depth == 1:
            leaves[pre + (k,)] = v
        else:
            l2, o2 = _flatten_mmap(v, depth - 1, pre + (k,))
            leaves.update(l2)
            order.update(o2)
    return leaves, order


def mmap_case(c):
    """one case of specs/sql/RecordsMMap.tla on the real SqlMethod.records_mmap; -> problem or None"""
    import collections
    from ak.mtd_sql import SqlMethod
    Rec = collections.namedtuple('Rec', ['a', 'b', 'n'])
    recs = [Rec(r['a'], r['b'], i + 1) for i, r in enumerate(c['recs'])]
    keys = list(c['keys'])
    what = 'records_mmap(%s, %s, unique=%s)' % ([(r.a, r.b) for r in recs], keys, c['unique'])
    try:
        got = SqlMethod.records_mmap(iter(recs) if len(recs) % 2 else recs, *keys, unique=c['unique'])
    except AssertionError:
        return None if c['failed'] else '%s raised AssertionError, the spec finds no duplicate key path' % what
    except Exception as e:
        return '%s raised %s: %s' % (what, type(e).__name__, str(e)[:80])
    if c['failed']:
        return '%s returned %r, the spec says two records share a key path (AssertionError)' % (what, got)
    leaves, order = _flatten_mmap(got, len(keys)) if recs else ({}, {(): []})
    want_leaves = {tuple(p): [recs[i - 1] for i in idx] for p, idx in c['leaves']}
    if c['unique']:
        want_leaves = {p: v[0] for p, v in want_leaves.items()}
    if leaves != want_leaves:
        return '%s gives the leaves %r, the spec %r' % (what, leaves, want_leaves)
    for p, v in leaves.items():
        for x, y in zip(v if isinstance(v, list) else [v], want_leaves[p] if isinstance(want_leaves[p], list) else [want_leaves[p]]):
            if x is not y:
                return '%s: the leaf at %s does not hold the record objects themselves' % (what, p)
    want_order = {tuple(pre): list(vals) for pre, vals in c['order']} or {(): []}
    if order != want_order:
        return '%s: keys in the order %r, first occurrences give %r' % (what, order, want_order)
    return None


def records_mmap(ctx):
    """growth item (DRIFT only): SqlMethod.records_mmap against specs/sql/RecordsMMap.tla"""
    cfg = ('SPECIFICATION Spec\nCHECK_DEADLOCK FALSE\nCONSTANTS\n  MaxRecs = %d\n  Vals = {1, 2}\n  Emit = TRUE\n'
           'INVARIANT Refines\nINVARIANT FailsIffDuplicate\nINVARIANT NothingLost\n' % (4 if ctx.quick else 5))
    r = ctx.tlc('sql/RecordsMMap.tla', cfg, workers=8, timeout=1800)
    cases = [c for c in r.printed if isinstance(c, dict)]
    if len(cases) < 1000:
        raise Machinery('RecordsMMap emitted %d cases' % len(cases))
    bad = 0
    for c in cases:
        if not isinstance(c['recs'], list):
            c['recs'] = []
        prob = mmap_case(c)
        if prob:
            bad += 1
            if bad <= 3:
                ctx.note_drift('RecordsMMap: ' + prob)
    wrong = dict(next(c for c in cases if c['leaves'] and not c['failed'] and not c['unique']))
    wrong['leaves'] = [[p, list(idx) + [1]] for p, idx in wrong['leaves']]
    ctx.selftest(mmap_case(wrong) is not None, 'RecordsMMap replay accepted a corrupted mapping')
    ctx.extra['records_mmap'] = {'cases': len(cases), 'differences': bad,
                                 'rejected_for_duplicates': sum(1 for c in cases if c['failed'])}


def run(ctx):
    ctx.assumptions += ['sqlite3 columns without type affinity; value pool NULL, 0, 1, "", "a", "o\'q", "%"; LIKE without '
                        'ESCAPE; the %s placeholder style is exercised through a sqlite connection whose type name contains mysql.connector and whose cursor maps %s to ?; sets only as 0/1-element containers (their iteration order is unspecified)']
    r = ctx.tlc('sql/SqlFilter.tla', 'SPECIFICATION Spec\nCHECK_DEADLOCK FALSE\nCONSTANTS\n  MaxConds = 1\n  Rich = TRUE\n'
                '  Emit = TRUE\nINVARIANT EmptyListFacts\nINVARIANT BindCountByShape\n', workers=4, timeout=3000)
    cases = [c for c in r.printed if isinstance(c, dict)]
    table = [c['table'] for c in cases if c['table']]
    if len(table) != 1:
        raise Machinery('table not emitted exactly once')
    table = table[0]
    n1 = len(cases)
    r = ctx.tlc('sql/SqlFilter.tla', 'SPECIFICATION Spec\nCHECK_DEADLOCK FALSE\nCONSTANTS\n  MaxConds = 3\n  Rich = FALSE\n'
                '  Emit = TRUE\n', workers=8, simulate=(1500 if ctx.quick else 40000), depth=6, timeout=3000)
    more = [c for c in r.printed if isinstance(c, dict)]
    if not ctx.quick:
        r = ctx.tlc('sql/SqlFilter.tla', 'SPECIFICATION Spec\nCHECK_DEADLOCK FALSE\nCONSTANTS\n  MaxConds = 2\n  Rich = FALSE\n'
                    '  Emit = TRUE\nINVARIANT BindCountByShape\n', workers=16, timeout=7200, heap='12g', decode=False)
        more += [c for c in r.printed if c.startswith('{')]      # JSON text, decoded where it is used (memory)
        del r
        ctx.extra['two_condition_cases_exhaustive'] = True
    cases += more
    jobs = []
    for i, c in enumerate(cases):
        if i < n1:
            for k, variant in enumerate((i % 60, (i + 7) % 60, (i + 31) % 60, (i + 13) % 60)):
                jobs.append((c, table, variant, k % 2, k // 2))       # '?' / '%s' placeholders x column b / _b
        else:
            jobs.append((c, table, i % 60, (i // 2) % 2, (i // 4) % 2))
    res = pmap(run_case, jobs, chunk=200)
    shapes = {}
    for job, (prob, sh) in zip(jobs, res):
        c, variant = job[0], job[2]
        if isinstance(c, str) and prob:
            c = json.loads(c)
        if prob:
            ctx.violation({'case': {k: c[k] for k in ('conds', 'desc', 'rows', 'binds')}, 'table': table, 'variant': variant, 'style': job[3], 'under': job[4]}, prob)
        elif sh:
            key, sql = sh
            if key in shapes and shapes[key][0] != sql:
                c = json.loads(c) if isinstance(c, str) else c
                ctx.violation({'case': {k: c[k] for k in ('conds', 'desc', 'rows', 'binds')}, 'table': table,
                               'variant': variant, 'style': job[3], 'under': job[4], 'other_sql': shapes[key][0]},
                              'same condition shape with different values gives different SQL text: %r vs %r' % (sql, shapes[key][0]))
            shapes.setdefault(key, (sql, None))
    bad = json.loads(json.dumps(cases[5]))
    bad['rows'] = bad['rows'] + [1]
    ctx.selftest(run_case((bad, table, 0))[0] is not None, 'replay accepted a corrupted row set')
    unique_names(ctx)
    records_mmap(ctx)
    ctx.traces = len(jobs)
    ctx.exhaustive = False
    ctx.extra['single_condition_cases_exhaustive'] = n1
    ctx.extra['multi_condition_cases'] = len(more)
    ctx.extra['distinct_shapes'] = len(shapes)
    for c in (cases[3], cases[n1 // 2], cases[-1]):
        c = json.loads(c) if isinstance(c, str) else c
        ctx.sample({k: c[k] for k in ('conds', 'desc', 'rows')})


def replay(ctx, case):
    return run_case((case['case'], case['table'], case['variant'], case.get('style', 0), case.get('under', 0)))[0]
