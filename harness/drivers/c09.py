"""C09 - emitted escape sequences are well-formed, self-contained and strippable.

specs/color/SGR.tla       terminal model + Requested(cfg)
specs/color/SGRCases.tla  builder of ColorFmt configurations (three sweeps), TLC invariant SelfConsistent
specs/color/SGRJudge.tla  trace acceptor fed with the items of str(x) recorded from the real code
"""
import json
import os

import sgr
from vcheck import Machinery

NAMES = ['BLACK', 'RED', 'GREEN', 'YELLOW', 'BLUE', 'MAGENTA', 'CYAN', 'WHITE', 'PURPLE']
TEXTS = ['ab', '[0m', '3;1m x', 'é[', '']


def _py(spec):
    t = spec['t']
    if t == 'none':
        return None
    if t == 'name':
        return NAMES[spec['n']]
    if t == 'int':
        return spec['v']
    if t == 'rgb':
        return (spec['r'], spec['g'], spec['b'])
    if t == 'rgbl':
        return [spec['r'], spec['g'], spec['b']]
    if t == 'bool':
        return bool(spec['v'])
    if t == 'float':
        return float(spec['v'])
    if t == 'obj':
        return {}
    if t == 'badstr':
        return BAD_STRINGS[spec['i'] - 1]
    return 'g%d' % spec['n']


# strings that are no colour values (gray-like with trailing garbage, lower case / extended names, digits as a string)
BAD_STRINGS = ['g5x', 'g1.5', 'g7a', 'g10/RED', 'g', 'red', 'REDX', '12a']


def _kwargs(cfg):
    kw = {e: True for e in cfg['eff']}
    for e in ('bold', 'faint', 'underline', 'blink', 'crossed'):
        if e not in kw and (len(cfg['eff']) % 2):
            kw[e] = False          # explicit False must behave like absent
    kw['bg_color'] = _py(cfg['bg'])
    if cfg['nocolor']:
        kw['no_color'] = True
    return kw


def _items(s):
    out = []
    for kind, v in sgr.items(s):
        if kind == 'ch':
            out.append({'t': 'ch', 'c': ord(v)})
        elif kind == 'sgr':
            ps = []
            for p in (v.split(';') if v != '' else ['0']):
                ps.append([int(x) if x != '' else 0 for x in p.split(':')] if p != '' else [0])
            out.append({'t': 'sgr', 'p': ps})
        else:
            out.append({'t': 'esc'})
    return out


def _make(cfg, cls):
    try:
        return 'ok', cls(_py(cfg['fg']), **_kwargs(cfg))
    except ValueError:
        return 'ValueError', None
    except Exception as e:
        return 'other:' + type(e).__name__, None


def run(ctx):
    from ak.color import CHText, ColorFmt, ColorBytes
    ctx.assumptions += ['colour values: None, the 8 names, ints incl. bools, (r,g,b) tuples and lists, "gN" strings; floats, other objects and strings that are neither a name nor "gN" ("g5x", "g1.5", "red", "12a") are invalid values; texts contain no ESC character']
    cfgs = []
    for sw in ('fg', 'bg', 'cross'):
        r = ctx.tlc('color/SGRCases.tla',
                    'SPECIFICATION Spec\nCHECK_DEADLOCK FALSE\nCONSTANTS\n  Sweep = "%s"\n  Emit = TRUE\n'
                    'INVARIANT SelfConsistent\n' % sw, workers=1 if sw != 'cross' else 4, timeout=1800)
        got = [c for c in r.printed if isinstance(c, dict)]
        if len(got) < 1000:
            raise Machinery('SGRCases(%s) emitted %d configurations' % (sw, len(got)))
        cfgs += sorted(got, key=lambda c: json.dumps(c, sort_keys=True))
    cases, meta = [], []
    valid_cfgs = []
    n_first = {}
    nconf = 0
    for n, ent in enumerate(cfgs):
        cfg = ent['cfg']
        nconf += 1
        for cls in (ColorFmt, ColorBytes):
            outc, fmt = _make(cfg, cls)
            want = 'ok' if ent['valid'] else 'ValueError'
            if outc != want:
                ctx.violation({'kind': 'ctor', 'cfg': cfg, 'cls': cls.__name__},
                              '%s(%r, %r) -> %s, the specification says %s' % (
                                  cls.__name__, _py(cfg['fg']), _kwargs(cfg), outc, want))
        if not ent['valid']:
            continue
        o1, fmt = _make(cfg, ColorFmt)
        o2, bfmt = _make(cfg, ColorBytes)
        if o1 != 'ok' or o2 != 'ok':
            continue                      # already reported above
        valid_cfgs.append(cfg)
        text = TEXTS[n % len(TEXTS)] if n % 7 else 'ab'
        try:
            n_first[json.dumps(cfg, sort_keys=True)] = str(fmt('ab'))
            chunk = fmt(text)
            s = str(chunk)
            b = bfmt(text.encode('utf-8')).decode('utf-8')
            CHText.strip_colors(s), chunk.plain_text()
        except Exception as ex:          # noqa
            from vcheck import real_code_failure
            msg = real_code_failure(ex)
            if msg is None:
                raise
            ctx.violation({'kind': 'chunk', 'cfg': cfg, 'text': text}, 'formatting a text with a valid configuration: ' + msg)
            valid_cfgs.pop()
            continue
        if cfg['nocolor'] and '\x1b' in s:
            ctx.violation({'kind': 'chunk', 'cfg': cfg, 'text': text}, 'no_color formatter emits an escape character: %r' % s)
        cases.append({'chunks': [{'cfg': cfg, 'text': [ord(c) for c in text]}], 'items': _items(s),
                      'bitems': _items(b), 'stripped': [ord(c) for c in CHText.strip_colors(s)],
                      'plain': [ord(c) for c in chunk.plain_text()]})
        meta.append({'kind': 'chunk', 'cfg': cfg, 'text': text, 'str': s})
    # second pass over the constructors: the outcome must not depend on which values were used before
    for ent in cfgs:
        cfg = ent['cfg']
        for cls in (ColorFmt, ColorBytes):
            outc, fmt = _make(cfg, cls)
            want = 'ok' if ent['valid'] else 'ValueError'
            if outc != want:
                ctx.violation({'kind': 'ctor', 'cfg': cfg, 'cls': cls.__name__},
                              '%s(%r, %r) -> %s when constructed again after all the other values, the specification says %s' % (
                                  cls.__name__, _py(cfg['fg']), _kwargs(cfg), outc, want))
            elif outc == 'ok' and ent['valid'] and cls is ColorFmt and n_first.get(json.dumps(cfg, sort_keys=True)) not in (None, str(fmt('ab'))):
                ctx.violation({'kind': 'chunk', 'cfg': cfg, 'text': 'ab'},
                              'the same configuration gives %r now and gave %r the first time' % (
                                  str(fmt('ab')), n_first[json.dumps(cfg, sort_keys=True)]))
    # multi-chunk texts: colour must not bleed from one chunk into the next
    ntext = 3000 if ctx.quick else 40000
    coloured_cfgs = [c for c in valid_cfgs if not c['nocolor'] and c['fg']['t'] != 'none']
    for i in range(ntext):
        k = ctx.rnd.randrange(2, 4)
        if i % 1000 == 7:
            k = ctx.rnd.randrange(200, 300)             # a long text: several hundred escape sequences
        parts = []
        for _ in range(k):
            cfg = ctx.rnd.choice(valid_cfgs if k < 100 else coloured_cfgs)
            parts.append((cfg, ctx.rnd.choice(TEXTS)))
        if i % 6 == 0:
            parts[1] = (parts[0][0], parts[1][1])       # two consecutive parts of the same colour (they get merged)
        if i % 3 == 0:
            # the same text grown step by step, looked at (str, format) before every extension
            t = CHText()
            for c, x in parts:
                str(t)
                format(t, '')
                t += ColorFmt(_py(c['fg']), **_kwargs(c))(x)
        else:
            t = CHText(*[ColorFmt(_py(c['fg']), **_kwargs(c))(x) for c, x in parts])
        s = str(t)
        cases.append({'chunks': [{'cfg': c, 'text': [ord(ch) for ch in x]} for c, x in parts], 'items': _items(s),
                      'bitems': _items(s), 'stripped': [ord(c) for c in CHText.strip_colors(s)],
                      'plain': [ord(c) for c in t.plain_text()]})
        meta.append({'kind': 'text', 'parts': parts, 'str': s, 'grown': i % 3 == 0})
    # negative self-tests
    # (synthetic traces, independent of what the code under test emits)
    red = {'fg': {'t': 'name', 'n': 1}, 'bg': {'t': 'none'}, 'eff': [], 'nocolor': False}
    ab = [{'t': 'ch', 'c': 97}, {'t': 'ch', 'c': 98}]
    good = {'chunks': [{'cfg': red, 'text': [97, 98]}], 'items': [{'t': 'sgr', 'p': [[31]]}] + ab + [{'t': 'sgr', 'p': [[0]]}],
            'bitems': [], 'stripped': [97, 98], 'plain': [97, 98]}
    bad1 = dict(good, items=good['items'][:-1])                                    # reset missing
    bad2 = dict(good, items=[{'t': 'sgr', 'p': [[32]]}] + good['items'][1:])       # wrong colour
    bad3 = dict(good, stripped=[97, 98, 27])                                       # strip leaves an ESC
    allc = cases + [bad1, bad2, bad3]
    path = os.path.join(ctx.tmp, 'c09.ndjson')
    rejected = {}
    CH = 20000
    for off in range(0, len(allc), CH):
        part = allc[off:off + CH]
        with open(path, 'w') as f:
            for c in part:
                f.write(json.dumps(c) + '\n')
        r = ctx.tlc('color/SGRJudge.tla', 'SPECIFICATION Spec\nCHECK_DEADLOCK FALSE\n', env={'CASES': path},
                    workers=16, timeout=3000)
        acc = 0
        for ln in r.raw_printed:
            if ln.startswith('<<"ACCEPT", '):
                acc += 1
            elif ln.startswith('<<"REJECT", '):
                _, tid, why = ln[2:-2].split(', ')
                rejected[off + int(tid)] = why.strip('"')
        if acc + sum(1 for k in rejected if off < k <= off + len(part)) != len(part):
            raise Machinery('SGRJudge verdict count mismatch')
    n = len(cases)
    ctx.selftest(all((n + i) in rejected for i in (1, 2, 3)), 'SGRJudge accepted a corrupted trace %s' % (
        [rejected.get(n + i) for i in (1, 2, 3)]))
    for tid, why in sorted(rejected.items()):
        if tid > n:
            continue
        m = meta[tid - 1]
        c = cases[tid - 1]
        if why == 'strip-colors-differs':
            tags = ['sgr.strip_misses_colon_form'] if any(
                it['t'] == 'sgr' and any(len(p) > 1 for p in it['p']) for it in c['items']) else []
        else:
            tags = []
        if c['items'] != c['bitems'] and why == 'ACCEPT':
            pass
        ctx.violation(m, 'str() = %r rejected by the terminal model: %s' % (m['str'], why), tags)
    for tid in range(1, n + 1):
        c = cases[tid - 1]
        if c['items'] != c['bitems']:
            ctx.violation(meta[tid - 1], 'ColorBytes output differs from ColorFmt output')
    ctx.traces = n
    ctx.exhaustive = False
    ctx.extra['configurations'] = nconf
    ctx.extra['valid_configurations'] = len(valid_cfgs)
    ctx.extra['multi_chunk_texts'] = ntext
    for i in (0, n // 3, n - 1):
        ctx.sample({'case': meta[i].get('cfg', meta[i].get('parts')), 'str': meta[i]['str']})


def replay(ctx, case):
    from ak.color import CHText, ColorFmt, ColorBytes
    if case['kind'] == 'ctor':
        cfg = case['cfg']
        cls = ColorFmt if case['cls'] == 'ColorFmt' else ColorBytes
        outc, _ = _make(cfg, cls)
        import subprocess
        # validity by the spec: re-evaluated through the judge with an empty trace is not needed; use Resolve rules
        def ok(s):
            t = s['t']
            return (t == 'none' or (t == 'name' and 0 <= s['n'] <= 7) or (t == 'int' and 0 <= s['v'] <= 255)
                    or (t in ('rgb', 'rgbl') and all(0 <= s[x] <= 5 for x in 'rgb')) or (t == 'gray' and 0 <= s['n'] <= 23)
                    or t == 'bool')
        want = 'ok' if (cfg['nocolor'] or (ok(cfg['fg']) and ok(cfg['bg']))) else 'ValueError'
        return None if outc == want else '%s -> %s, expected %s' % (case['cls'], outc, want)
    if case['kind'] == 'chunk':
        parts = [(case['cfg'], case['text'])]
    else:
        parts = case['parts']
    if case.get('grown'):
        t = CHText()
        for c, x in parts:
            str(t)
            format(t, '')
            t += ColorFmt(_py(c['fg']), **_kwargs(c))(x)
    else:
        t = CHText(*[ColorFmt(_py(c['fg']), **_kwargs(c))(x) for c, x in parts])
    s = str(t)
    c = {'chunks': [{'cfg': cf, 'text': [ord(ch) for ch in x]} for cf, x in parts], 'items': _items(s),
         'bitems': _items(s), 'stripped': [ord(ch) for ch in CHText.strip_colors(s)],
         'plain': [ord(ch) for ch in t.plain_text()]}
    path = os.path.join(ctx.tmp, 'c09r.ndjson')
    with open(path, 'w') as f:
        f.write(json.dumps(c) + '\n')
    r = ctx.tlc('color/SGRJudge.tla', 'SPECIFICATION Spec\nCHECK_DEADLOCK FALSE\n', env={'CASES': path}, workers=1)
    for ln in r.raw_printed:
        if ln.startswith('<<"REJECT"'):
            return 'str() = %r rejected: %s' % (s, ln)
    return None
