"""C14 - syntax colors resolve by inheritance, independent of registration order.

specs/color/ColorsConfig.tla  builder (descriptions, split into config + ordered batches), A-spec Resolve,
                              I-spec add_new_items / palette cache; TLC invariants ImplMatchesSpec,
                              KnownIsFinal, OrderIndependent, CacheCoherent
Every emitted behaviour is replayed on a real ColorsConfig; after every registration the colour shown for
every id (get_color and palette accessors) is compared with the spec's expectation.
"""
import json

import sgr
from vcheck import Machinery, pmap, guarded

NAMES = {'BLACK': 0, 'RED': 1, 'GREEN': 2, 'YELLOW': 3, 'BLUE': 4, 'MAGENTA': 5, 'CYAN': 6, 'WHITE': 7}


def _cfg(numids, pools, emit):
    return ('SPECIFICATION Spec\nCHECK_DEADLOCK FALSE\nCONSTANTS\n  NumIds = %d\n  Pools = "%s"\n  Emit = %s\n'
            'INVARIANT ImplMatchesSpec\nINVARIANT KnownIsFinal\nINVARIANT OrderIndependent\n'
            'INVARIANT CacheCoherent\n' % (numids, pools, 'TRUE' if emit else 'FALSE'))


def init_str(d):
    fg, bg = d['c']
    m = d['m']
    mods = []
    if m['bold'] == 1:
        mods.append('bold')
    elif m['bold'] == 0:
        mods.append('no_bold')
    if m['ul'] == 1:
        mods.append('underline')
    col = fg + ('/' + bg if bg != '' else '')
    parts = []
    if d['p']:
        parts.append(d['p'])
        if col:
            parts.append(col)
    else:
        parts.append(col)
    if mods:
        parts.append(','.join(mods))
    return ':'.join(parts)


def _term_color(c):
    """spec colour value -> terminal colour as sgr.paint reports it"""
    if c == 'none':
        return None
    if c in NAMES:
        return ('name', NAMES[c])
    if c.startswith('g'):
        return ('idx', 232 + int(c[1:]))
    if c.startswith('('):
        r, g, b = [int(x) for x in c[1:-1].split(',')]
        return ('idx', 16 + 36 * r + 6 * g + b)
    return ('idx', int(c))


def _want_state(v, no_color):
    if no_color:
        return sgr.DEFAULT
    eff = set()
    if v['bold'] == 1:
        eff.add('bold')
    if v['ul'] == 1:
        eff.add('underline')
    return (_term_color(v['fg']), _term_color(v['bg']), frozenset(eff))


def _shown(fmt):
    s = str(fmt('x'))
    cells, final, probs = sgr.paint(s)
    if len(cells) != 1 or probs or final != sgr.DEFAULT:
        return ('broken', s)
    return cells[0][1]


def _nest(flat):
    out = {}
    for k, v in flat.items():
        parts = k.split('.')
        d = out
        for p in parts[:-1]:
            d = d.setdefault(p, {})
        d[parts[-1]] = v
    return out


@guarded(lambda m: (m, []))
def replay_history(job):
    hist, no_color, nested = job
    from ak.color import ColorsConfig, Palette, ConfColor
    conf = None
    dash_pending = False
    pals = []          # (palette class, {accessor: id})
    for n, st in enumerate(hist):
        if isinstance(st['batch'], list):
            st['batch'] = {}           # ToJson of the empty function
        flat = {i: init_str(d) for i, d in st['batch'].items()}
        if st['kind'] == 'config' and st.get('text'):
            flat['TEXT'] = 'CYAN:underline'
        arg = _nest(flat) if nested else flat
        where = 'step %d (%s %s)' % (n + 1, st['kind'], flat)
        tags = []
        if any(d['p'] and '-' in d['c'] for d in st['batch'].values()) or dash_pending:
            tags = ['colorsconf.dash_under_parent']
        # (a description with '-' under a parent registered earlier may still be pending: the tag stays on)
        dash_pending = dash_pending or any(d['p'] and '-' in d['c'] for d in st['batch'].values())
        try:
            if st['kind'] == 'config':
                conf = ColorsConfig(arg, no_color=no_color)
            elif st['kind'] == 'direct':
                conf.add_new_items(flat, 'component %d' % n)
            else:
                acc = {'a%d' % k: i for k, i in enumerate(sorted(flat))}
                acc['zz'] = 'U'               # an accessor for an id nobody registers
                ns = {'SYNTAX_DEFAULTS': arg}
                ns.update({a: ConfColor(i) for a, i in acc.items()})
                if n % 2:
                    # the defaults live in a parent palette class that is only named in PARENT_PALETTES of the class in use
                    base = type('BasePal', (Palette,), {'SYNTAX_DEFAULTS': arg})
                    ns = {'PARENT_PALETTES': [base]}
                    ns.update({a: ConfColor(i) for a, i in acc.items()})
                cls = type('Pal', (Palette,), ns)        # distinct classes that share one qualified name (as classes made by a factory do)
                pals.append((cls, acc, {i: d for i, d in st['batch'].items()}))
                cls(colors_conf=conf)
        except Exception as e:
            return '%s raised %s: %s' % (where, type(e).__name__, str(e)[:120]), tags
        for i, v in st['exp'].items():
            want = _want_state(v, no_color)
            got = _shown(conf.get_color(i))
            if got != want:
                return '%s: get_color(%r) shows %s, final descriptions so far resolve to %s' % (where, i, got, want), []
        gp = conf.get_palette()
        for i, v in st['exp'].items():
            if _shown(gp[i]) != _want_state(v, no_color):
                return '%s: get_palette()[%r] shows %s, expected %s' % (where, i, _shown(gp[i]), _want_state(v, no_color)), []
        # palettes obtained from the configuration now must reflect its current state
        for cls, acc, _b in pals:
            p = cls(colors_conf=conf)
            for a, i in acc.items():
                want = _want_state(st['exp'][i], no_color)
                got = _shown(getattr(p, a))
                if got != want:
                    return '%s: palette %s obtained now shows %s for %r, expected %s' % (where, cls.__name__, got, i, want), []
            pn = cls(colors_conf=conf, no_color=True)
            for a in acc:
                if _shown(getattr(pn, a)) != sgr.DEFAULT:
                    return '%s: no_color palette has effects' % where, []
        rep = conf.make_report()
        nr = sum(1 for ln in rep.split('\n') if '<NOT RESOLVED>' in ln)
        if nr != len(st['pending']):
            return '%s: make_report() marks %d ids as not resolved, pending ids are %s' % (where, nr, st['pending']), []
    # the same palette classes with ANOTHER configuration (first as no_color palette, then coloured): the defaults of
    # the class must reach the new configuration too
    if pals and not no_color:
        conf2 = ColorsConfig({}, no_color=False)
        declared = set()          # first declaration of an id wins, also in the second configuration
        for cls, acc, batch in pals:
            try:
                pn = cls(colors_conf=conf2, no_color=True)      # only the no_color palette: the ids must be known already
            except Exception as e:
                return 'palette class used with a second configuration raised %s: %s' % (type(e).__name__, str(e)[:100]), []
            for a, i in acc.items():
                if _shown(getattr(pn, a)) != sgr.DEFAULT:
                    return 'no_color palette of a second configuration has effects', []
            own = getattr(cls, 'SYNTAX_DEFAULTS') or cls.PARENT_PALETTES[0].SYNTAX_DEFAULTS
            flat_own = _flat(own)
            for a, i in acc.items():
                d = flat_own.get(i)
                if i in declared or d is None or i not in batch or batch[i]['p']:
                    continue          # only first declarations without a parent are decided by the class alone
                want = _shown(ColorsConfig({i: d}).get_color(i))
                got = _shown(conf2.get_color(i))
                if got != want:
                    return ('second configuration: after %s(colors_conf=conf2, no_color=True) get_color(%r) shows %s, the '
                            'class default %r gives %s' % (cls.__name__, i, got, d, want)), []
            declared.update(flat_own)
    return None, []


@guarded(lambda m: (m, []))
def replay_global(job):
    """the same history with the configuration installed as the GLOBAL one and the palettes created as synced palettes:
    synced palettes (and ak.color.global_palette) must reflect the current state after every step, and after a NEW
    global configuration made of the same initial items is installed (histories without direct registrations)"""
    # synced palettes are process-wide singletons and the public interface has no way to retire them, so every behaviour
    # is replayed in a process of its own (a fork of this worker) - nothing of it is left behind
    import os
    r, w = os.pipe()
    pid = os.fork()
    if pid == 0:
        try:
            os.close(r)
            try:
                res = _replay_global(job, [])
            except Exception as ex:          # noqa
                from vcheck import real_code_failure
                msg = real_code_failure(ex)
                res = (msg, []) if msg else ('machinery: %s: %s' % (type(ex).__name__, str(ex)[:200]), ['machinery'])
            os.write(w, json.dumps(res).encode())
        finally:
            os._exit(0)
    os.close(w)
    chunks = []
    while True:
        b = os.read(r, 65536)
        if not b:
            break
        chunks.append(b)
    os.close(r)
    os.waitpid(pid, 0)
    if not chunks:
        return 'machinery: the replay process gave no result', ['machinery']
    prob, tags = json.loads(b''.join(chunks).decode())
    return prob, tags


def _replay_global(job, mine):
    hist, no_color, nested = job
    from ak import color
    from ak.color import ColorsConfig, Palette, ConfColor, set_global_colors_config, global_palette
    conf = None
    synced = []
    first_flat = None

    def check(where, exp, cf):
        for obj, acc in synced:
            for a, i in acc.items():
                want = _want_state(exp[i], no_color)
                got = _shown(getattr(obj, a))
                if got != want:
                    return '%s: synced palette %s shows %s for %r, expected %s' % (where, type(obj).__name__, got, i, want)
        for i, v in exp.items():
            want = _want_state(v, no_color)
            if _shown(global_palette[i]) != want:
                return '%s: global_palette[%r] shows %s, expected %s' % (where, i, _shown(global_palette[i]), want)
            if _shown(cf.get_color(i)) != want:
                return '%s: get_color(%r) of the global configuration shows %s, expected %s' % (where, i, _shown(cf.get_color(i)), want)
        return None
    for n, st in enumerate(hist):
        if isinstance(st['batch'], list):
            st['batch'] = {}
        flat = {i: init_str(d) for i, d in st['batch'].items()}
        if st['kind'] == 'config' and st.get('text'):
            flat['TEXT'] = 'CYAN:underline'
        arg = _nest(flat) if nested else flat
        where = 'global configuration, step %d (%s %s)' % (n + 1, st['kind'], flat)
        try:
            if st['kind'] == 'config':
                first_flat = dict(flat)
                conf = ColorsConfig(arg, no_color=no_color)
                set_global_colors_config(conf)
            elif st['kind'] == 'direct':
                conf.add_new_items(flat, 'component %d' % n)
            else:
                acc = {'a%d' % k: i for k, i in enumerate(sorted(flat))}
                acc['zz'] = 'U'
                ns = {'SYNTAX_DEFAULTS': arg}
                ns.update({a: ConfColor(i) for a, i in acc.items()})
                if n % 2:
                    base = type('BasePal', (Palette,), {'SYNTAX_DEFAULTS': arg})
                    ns = {'PARENT_PALETTES': [base]}
                    ns.update({a: ConfColor(i) for a, i in acc.items()})
                cls = type('Pal', (Palette,), ns)
                mine.append(cls)
                obj = cls(synced=True)
                if cls(synced=True) is not obj:
                    return '%s: a second synced palette object of the same class' % where, []
                synced.append((obj, acc))
        except Exception as e:
            return '%s raised %s: %s' % (where, type(e).__name__, str(e)[:120]), []
        prob = check(where, st['exp'], conf)
        if prob:
            return prob, []
    if synced and first_flat is not None and not any(st['kind'] == 'direct' for st in hist):
        # a NEW global configuration with the same explicit items: the synced palettes register their defaults again
        conf2 = ColorsConfig(_nest(first_flat) if nested else dict(first_flat), no_color=no_color)
        try:
            set_global_colors_config(conf2)
        except Exception as e:
            return 'installing a new global configuration raised %s: %s' % (type(e).__name__, str(e)[:120]), []
        prob = check('a new global configuration %s installed after the history' % first_flat, hist[-1]['exp'], conf2)
        if prob:
            return prob, []
    return None, []


def _flat(d, prefix=''):
    out = {}
    for k, v in d.items():
        if isinstance(v, dict):
            out.update(_flat(v, prefix + k + '.'))
        else:
            out[prefix + k] = v
    return out


def run(ctx):
    ctx.assumptions += ['one description per id (a batch may re-declare a known id: it must be ignored); acyclic '
                        'reference chains; parents: another id, the built-in NAME, or an id that is never registered']
    hists = []
    r = ctx.tlc('color/ColorsConfig.tla', _cfg(2, 'full', True), workers=16, timeout=3000)
    hists += [h for h in r.printed if isinstance(h, list)]
    if ctx.quick:
        r = ctx.tlc('color/ColorsConfig.tla', _cfg(3, 'small', True), workers=8, simulate=400, depth=12, timeout=3000)
    else:
        r = ctx.tlc('color/ColorsConfig.tla', _cfg(3, 'small', False), workers=16, timeout=7200, heap='16g')
        r = ctx.tlc('color/ColorsConfig.tla', _cfg(3, 'full', True), workers=8, simulate=8000, depth=12, timeout=3000)
    sim = [h for h in r.printed if isinstance(h, list)]
    n_exh = len(hists)
    hists += sim
    if n_exh < 1000:
        raise Machinery('ColorsConfig emitted only %d behaviours' % n_exh)
    jobs = [(h, (k % 5 == 4), (k % 2 == 0)) for k, h in enumerate(hists)]
    res = pmap(replay_history, jobs)
    for job, (prob, tags) in zip(jobs, res):
        if prob:
            ctx.violation({'history': job[0], 'no_color': job[1], 'nested': job[2]}, prob, tags)
    # the global / synced replay forks one process per behaviour: the behaviours with palette steps, up to a bound
    gjobs = [j for j in jobs if any(st['kind'] == 'palette' for st in j[0])]
    gmax = 8000 if ctx.quick else 60000
    if len(gjobs) > gmax:
        # those with two or more palette steps and no direct registration first (a new global configuration is installed
        # at the end of these), then an even sample of the rest
        first = [j for j in gjobs if sum(1 for st in j[0] if st['kind'] == 'palette') >= 2 and not any(st['kind'] == 'direct' for st in j[0])]
        rest = [j for j in gjobs if not (sum(1 for st in j[0] if st['kind'] == 'palette') >= 2 and not any(st['kind'] == 'direct' for st in j[0]))]
        first = first[::max(1, len(first) // (gmax // 2))][:gmax // 2]
        rest = rest[::max(1, len(rest) // (gmax - len(first)))][:gmax - len(first)]
        gjobs = first + rest
    ctx.extra['behaviours_replayed_through_the_global_configuration'] = len(gjobs)
    res = pmap(replay_global, gjobs)
    for job, (prob, tags) in zip(gjobs, res):
        if prob:
            if 'machinery' in tags:
                raise Machinery(prob)
            ctx.violation({'history': job[0], 'no_color': job[1], 'nested': job[2], 'global': True}, prob, tags)
    bad = json.loads(json.dumps(hists[n_exh // 2]))
    for st in bad:
        k = sorted(st['exp'])[0]
        st['exp'][k]['fg'] = 'MAGENTA'
    ctx.selftest(replay_history((bad, False, False))[0] is not None, 'replay accepted a corrupted expectation')
    ctx.traces = len(hists)
    ctx.exhaustive = False
    ctx.extra['behaviours_exhaustive_2_ids'] = n_exh
    ctx.extra['behaviours_simulated_3_ids'] = len(sim)
    for h in (hists[0], hists[n_exh // 2], hists[-1]):
        ctx.sample([{'kind': st['kind'], 'batch': {i: init_str(d) for i, d in dict(st['batch']).items()}} for st in h])


def replay(ctx, case):
    job = (case['history'], case['no_color'], case['nested'])
    return (replay_global if case.get('global') else replay_history)(job)[0]
