"""Shared driver of the parser family (C01, C02, C03).

specs/llparser/LLGrammar.tla  A-spec: nullable/FIRST/FOLLOW, LL(1) as written, left recursion,
                              bounded language, valid derivation trees
specs/llparser/LLCases.tla    case builder: every grammar of a bounded family with the A-spec's
                              verdicts (leftrec, ll1, sentences up to length K)
specs/llparser/LLJudge.tla    judge of observations recorded from the real parser
"""
import itertools
import json
import os
import signal
import sys

from vcheck import Machinery, pmap

TOK_PLAIN = r"(?P<SPACE>\s+)|(?P<a>a)|(?P<b>b)|(?P<c>c)|(?P<d>d)|(?P<e>e)"
# keywords / synonyms configuration: two regex groups map to token 'a', a WORD value to 'b'
# the keywords are declared for a token name that exists only through the synonyms (three groups are called 'a')
# ... and a quoted word is a token of another kind (b) whose VALUE (the text between the quotes) may equal the value of an a
# a comment (skipped) may hold any character but the line feed; keywords also rename tokens INTO and OUT OF the skipped
# kinds: the word 'zz' becomes white space, a lone tab (white space) becomes the token b
# ... and a token that takes the rest of its line (=...) is b as well: a str text is split into lines which are right-stripped,
# so the blanks that end such a line are not part of the token
# ... and a context-sensitive pattern: an x that directly follows a word character (\Bx, as in mmx) is b, any other x is a
TOK_KW = r"(?P<SPACE>\s+)|(?P<COMMENT>\#[^\n]*)|(?P<NB1>\Bx)|(?P<X1>x)|(?P<X2>y)|(?P<W1>[k-w]+|zz)|\"(?P<Q1>[a-z]*)\"|(?P<R1>=[^\n]*)"
KW_SYN = {'NB1': 'b', 'X1': 'a', 'X2': 'a', 'W1': 'a', 'Q1': 'b', 'R1': 'b'}
KW_KEY = {('a', 'kw'): 'b', ('a', 'kww'): 'c', ('a', 'kwd'): 'd', ('a', 'kwe'): 'e', ('a', 'zz'): 'SPACE', ('SPACE', '\t'): 'b'}

FAMILIES = {
    # name: (NumNT, terms, MaxAlts, MaxLen, K, PrefixLen)
    'Q2': (2, ['a', 'b'], 2, 2, 2, 0),      # two symbols, all inputs <= 2
    'A2': (2, ['a', 'b'], 2, 2, 3, 0),      # the same grammars, inputs <= 3
    'A1': (1, ['a', 'b'], 3, 3, 4, 0),      # one symbol, three alternatives of length <= 3
    'P1': (1, ['a', 'b'], 3, 3, 5, 1),      # prefix-heavy: every alternative starts with 'a' (nested prefixes)
    'C3': (3, ['a', 'b'], 2, 1, 2, 0),      # three symbols, unit/terminal/empty alternatives (chains)
    'P2': (2, ['a', 'b'], 2, 2, 4, 1),      # two symbols, every alternative starts with 'a'
    # left-recursion focused: three symbols, base alternatives (empty / 'a') and ONE sequence of 2..3 non-terminals
    # somewhere in the grammar, under every assignment of names to the roles
    'R3': (3, ['a'], 2, 3, 2, 0, 'nts'),
    # wide common-prefix group: one symbol, up to 6 alternatives 'a' + (nothing | one of 5 terminals)
    'W6': (1, ['a', 'b', 'c', 'd', 'e'], 6, 1, 1, 1, 'terms'),
    # chain A -> B.. -> C..: each symbol uses later symbols only, as <<N>> or <<N, t>> (nullable heads of chains)
    'H3': (3, ['a', 'b'], 2, 2, 3, 0, 'chain'),
    # as H3 over one terminal, plus a later symbol repeated around the terminal (N N a, N a N), two later symbols and
    # right recursion behind a later symbol (what is nullable when a nullable symbol occurs twice in a production)
    'N3': (3, ['a'], 2, 3, 2, 0, 'rep'),
    # FOLLOW focused: A -> B t; B -> one alternative; later symbols only, also as N t M and t M (nullable last symbol)
    'F4': (4, ['a', 'b'], 2, 3, 3, 0, 'follow'),
    # FOLLOW dependencies in cycles: A -> c B c, the others t N | empty with N any of them (tail recursion in cycles)
    'Y4': (4, ['a', 'b', 'c'], 2, 3, 4, 0, 'cycle'),
}


def cases_cfg(fam, emit=True):
    numnt, terms, maxalts, maxlen, k, pfx = FAMILIES[fam][:6]
    pool = FAMILIES[fam][6] if len(FAMILIES[fam]) > 6 else 'all'
    return ('SPECIFICATION Spec\nCHECK_DEADLOCK FALSE\nCONSTANTS\n  NumNT = %d\n  TERMS = {%s}\n'
            '  MaxAlts = %d\n  MaxLen = %d\n  K = %d\n  PrefixLen = %d\n  Pool = "%s"\n  Emit = %s\n'
            'INVARIANT NullableIffEmptySentence\nINVARIANT FirstMatchesLanguage\n' % (
                numnt, ', '.join('"%s"' % t for t in terms), maxalts, maxlen, k, pfx, pool,
                'TRUE' if emit else 'FALSE'))


class _Timeout(Exception):
    pass


def _alarm(signum, frame):
    raise _Timeout()


def tree_json(t):
    """TElement -> node for LLGrammar!ValidNode"""
    v = t.value
    if v is None:
        return {'n': t.name, 'k': []}
    if isinstance(v, list):
        return {'n': t.name, 'k': [tree_json(x) for x in v]}
    return {'n': t.name, 'v': str(v)}


class _Budget(Exception):
    pass


class _NullOut:
    def write(self, s):
        return len(s)

    def flush(self):
        pass


_CLS = {}


def parser_class():
    """LLParser subclass whose debug hooks count machine steps (deterministic step budget).

    parse(debug=True) calls _log_cur_prod / _log_match_result on every frame push, roll-back and
    completed or failed production, i.e. at least once per iteration of the machine loop that does
    not consume a token - so an execution that never returns exceeds any budget."""
    if 'c' in _CLS:
        return _CLS['c']
    from ak.llparser import LLParser

    class CountingParser(LLParser):
        steps = 0
        budget = 10 ** 9
        max_stack = 0

        record = None       # list of event dicts when the I-spec binding records the stack snapshots

        def _snap(self, k, parse_stack):
            self.record.append({'k': k, 'st': [{'sym': f.symbol, 'start': f.start_token_pos, 'cur': f.cur_token_pos,
                                                'ai': f.cur_prod_id, 'nv': len(f.values)} for f in parse_stack]})

        def _log_cur_prod(self, parse_stack, tokens):
            if self.record is not None:
                self._snap('cur', parse_stack)
            self.steps += 1
            if len(parse_stack) > self.max_stack:
                self.max_stack = len(parse_stack)
            if self.steps > self.budget:
                raise _Budget()

        def _log_match_result(self, parse_stack, tokens):
            if self.record is not None:
                self._snap('res', parse_stack)
            self.steps += 1
            if self.steps > self.budget:
                raise _Budget()

        def _log_debug(self, *a, **k):
            pass

        def parse_counted(self, text, budget, **kw):
            self.steps = 0
            self.max_stack = 0
            self.budget = budget
            old = sys.stdout
            sys.stdout = _NULL
            try:
                return self.parse(text, debug=True, **kw)
            finally:
                sys.stdout = old
    _CLS['c'] = CountingParser
    return CountingParser


_NULL = _NullOut()
STEP_BUDGET = 200000


def mk_parser(prods, start, smart, kw=False, rev=False, noskip=False):
    LLParser = parser_class()
    items = list(prods.items())
    if rev:
        items.reverse()          # insertion order of the productions dict is a configuration dimension
    pp = {nt: [tuple(a) if a else None for a in alts] for nt, alts in items}
    if kw:
        return LLParser(TOK_KW, productions=pp, start_symbol_name=start, smart_factorization=smart,
                        synonyms=KW_SYN, keywords=KW_KEY)
    if noskip:
        # "skip nothing": the white space tokens stay in the token stream (no grammar of the families accepts them)
        return LLParser(TOK_PLAIN, productions=pp, start_symbol_name=start, smart_factorization=smart, skip_tokens=set())
    return LLParser(TOK_PLAIN, productions=pp, start_symbol_name=start, smart_factorization=smart)


def render(toks, kw, salt=0):
    """token names -> (text, expected [n, v] tokens)"""
    if not kw:
        return ' '.join(toks), [{'n': t, 'v': t} for t in toks]
    lex, glued = [], set()
    for i, t in enumerate(toks):
        if t == 'a':
            lex.append(('x', 'y', 'mm')[(i + salt) % 3])
        elif t == 'b' and i and lex[i - 1] == 'mm' and (i + salt) % 2 == 0:
            lex.append('x')
            glued.add(i)            # written directly after the word mm: the x of mmx is not at a word boundary
        elif t == 'b':
            lex.append(('kw', '"x"', '"mm"', '"y"', '\t', '=v  w')[(i + salt) % 6])
        elif t == 'c':
            lex.append('kww')
        elif t == 'd':
            lex.append('kwd')
        else:
            lex.append('kwe')
    # glue: a single blank, the word 'zz' (renamed to white space by a keyword) or nothing around a tab that is a token
    text = ''
    for i, l in enumerate(lex):
        if i:
            if lex[i - 1].startswith('='):
                glue = '  \t \n'                # a rest-of-line token: blanks and a tab end its line
            elif l == '\t' or lex[i - 1] == '\t' or i in glued:
                glue = ''
            else:
                glue = (' ', ' zz ', ' ')[(i + salt) % 3]
            text += glue
        text += l
    if lex and lex[-1].startswith('='):
        text += '   \n' if salt % 2 else '  '
    if salt % 2:
        text += ('' if text.endswith(('\t', '\n')) else ' ') + '# x\x0c y\r kw\x85 x\u2028 y'        # a comment ends at the line feed only
        # (no blank after a tab that is a token: white space runs are one token)
    return text, [{'n': t, 'v': l.strip('"')} for t, l in zip(toks, lex)]      # value of a quoted word: without the quotes


def render_lines(toks, salt=0):
    """the keyword-tokenizer text of render() as a list of lines, one token per line and no line ends in the items
    (the documented Iterable[str] form of the text): the break between two lines separates tokens"""
    # words that would be ONE word if the lines were glued together: mm|mm, kw|mm, kww|kwd, ...
    lines = [{'a': 'mm', 'b': ('kw', '"x"')[(i + salt) % 2], 'c': 'kww', 'd': 'kwd', 'e': 'kwe'}[t] for i, t in enumerate(toks)]
    etoks = [{'n': t, 'v': l.strip('"')} for t, l in zip(toks, lines)]
    if salt % 2:
        lines.append('# x\x0c y kw')
    return lines, etoks


def all_inputs(terms, k):
    out = []
    for n in range(k + 1):
        out += [list(p) for p in itertools.product(terms, repeat=n)]
    return out


def run_grammar(job):
    """Replay one TLC-emitted grammar on the real parser.

    Returns dict(viol=[(prop, what, case, tags)], obs=[json-able observation for the judge], n=parses)"""
    case, terms, k, kw, budget = job[:5]
    rev = bool(job[5]) if len(job) > 5 else False
    noskip = bool(job[6]) if len(job) > 6 else False
    from ak.llparser import GrammarIsRecursive, ParsingError, Error
    prods, start = case['prods'], case['start']
    lang = set(tuple(s) for s in case['lang'])
    viol, obs = [], []
    gdesc = {'start': start, 'prods': prods, 'terms': terms, 'rev': rev, 'noskip': noskip}
    parsers = {}
    ctor = {}
    for smart in (True, False):
        try:
            parsers[smart] = mk_parser(prods, start, smart, kw, rev, noskip)
            ctor[smart] = 'ok'
        except GrammarIsRecursive:
            ctor[smart] = 'GrammarIsRecursive'
        except AssertionError as e:
            ctor[smart] = 'AssertionError'
        except Error as e:
            ctor[smart] = type(e).__name__
        except RecursionError:
            ctor[smart] = 'RecursionError'
        # C03 (constructor half)
        if case['leftrec'] != (ctor[smart] == 'GrammarIsRecursive'):
            if ctor[smart] in ('ok', 'GrammarIsRecursive'):
                tags = ['ll.leftrec_missed_behind_processed_nullable'] if (case['leftrec'] and ctor[smart] == 'ok') else []
                viol.append(('C03', 'constructor %s, but the grammar %s left recursive (symbols %s): start=%s prods=%s smart=%s' % (
                    'accepted' if ctor[smart] == 'ok' else 'raised GrammarIsRecursive',
                    'is' if case['leftrec'] else 'is not', case['lrsyms'], start, prods, smart),
                    {'g': gdesc, 'smart': smart, 'kw': kw, 'kind': 'ctor'}, tags))
            elif not case['leftrec']:
                # rejected for another reason: outside "accepted by the constructor"; recorded, no verdict
                pass
        # C02: a conflict-free grammar must get a parser at all
        if case['ll1'] and not case['leftrec'] and ctor[smart] == 'GrammarIsRecursive':
            viol.append(('C02', 'conflict-free (LL(1)) grammar is rejected by the constructor with GrammarIsRecursive, so none of its '
                         'sentences can be parsed: start=%s prods=%s smart=%s' % (start, prods, smart),
                         {'g': gdesc, 'smart': smart, 'kw': kw, 'kind': 'ctor'}, []))
    # C02: both smart_factorization settings must treat a conflict-free grammar alike
    conflict_free = case['ll1'] or any(not p.is_ambiguous() for p in parsers.values())
    if conflict_free and not case['leftrec'] and len(ctor) == 2 and ctor[True] != ctor[False] and 'ok' in ctor.values():
        viol.append(('C02', 'conflict-free grammar (is_ambiguous() is False for the setting that works): constructor gives %s with smart_factorization=True and %s with False: '
                     'start=%s prods=%s' % (ctor[True], ctor[False], start, prods),
                     {'g': gdesc, 'smart': True, 'kw': kw, 'kind': 'ctor'}, []))
    n = 0
    maxsteps = 0
    res_by_smart = {}
    for smart, p in parsers.items():
        if case['leftrec']:
            continue          # accepted although left recursive: already reported above; parsing may not end
        amb = p.is_ambiguous()
        if case['ll1'] and amb:
            viol.append(('C02', 'grammar is LL(1) as written but is_ambiguous() is True: start=%s prods=%s smart=%s' % (
                start, prods, smart), {'g': gdesc, 'smart': smart, 'kw': kw, 'kind': 'amb'}, []))
        exact = (not amb or case['ll1']) and not case['leftrec']
        results = []
        for toks in all_inputs(terms, k):
            text, etoks = render(toks, kw, salt=len(toks))
            if noskip:
                # the tokens of the text include the white space between the words
                etoks = [x for i, tk in enumerate(etoks) for x in (([{'n': 'SPACE', 'v': ' '}] if i else []) + [tk])]
            n += 1
            signal.setitimer(signal.ITIMER_REAL, budget)
            try:
                t = p.parse_counted(text, STEP_BUDGET, do_cleanup=False)
                r, tj = 'tree', tree_json(t)
            except ParsingError:
                r, tj = 'ParsingError', None
            except _Budget:
                r, tj = 'step budget of %d machine steps exceeded (stack depth %d)' % (STEP_BUDGET, p.max_stack), None
            except _Timeout:
                r, tj = 'timeout', None
            except RecursionError:
                r, tj = 'RecursionError', None
            except MemoryError:
                r, tj = 'MemoryError', None
            except Exception as e:
                r, tj = 'exc:' + type(e).__name__, None
            finally:
                signal.setitimer(signal.ITIMER_REAL, 0)
            if p.steps > maxsteps:
                maxsteps = p.steps
            results.append(r)
            pcase = {'g': gdesc, 'smart': smart, 'kw': kw, 'toks': toks, 'kind': 'parse'}
            if r not in ('tree', 'ParsingError'):
                tags = ['ll.leftrec_missed_behind_processed_nullable'] if case['leftrec'] else []
                viol.append(('C03', 'parse(%r) does not return: %s (grammar accepted by the constructor: start=%s '
                             'prods=%s smart=%s)' % (text, r, start, prods, smart), pcase, tags))
                continue
            if case['leftrec']:
                continue
            if exact and not noskip and ((r == 'tree') != (tuple(toks) in lang)):
                viol.append(('C02', 'conflict-free grammar start=%s prods=%s smart=%s: %r is %s sentence but parse gives %s' % (
                    start, prods, smart, text, 'a' if tuple(toks) in lang else 'not a', r), pcase, []))
            if r == 'tree':
                obs.append({'g': gdesc, 'toks': etoks, 'res': r, 'tree': tj, 'exact': bool(exact),
                            'smart': smart, 'kw': kw, 'tn': toks})
            lines, etoks2 = render_lines(toks, salt=len(toks)) if kw and 2 <= len(toks) <= 3 else ([''], None)
            if etoks2 is not None:
                # the same tokens given as a list of lines (one token per line)
                n += 1
                signal.setitimer(signal.ITIMER_REAL, budget)
                try:
                    t2 = p.parse_counted(list(lines) if len(toks) == 2 else iter(lines), STEP_BUDGET, do_cleanup=False)
                    r2, tj2 = 'tree', tree_json(t2)
                except ParsingError:
                    r2, tj2 = 'ParsingError', None
                except Exception as e:
                    r2, tj2 = 'exc:' + type(e).__name__, None
                finally:
                    signal.setitimer(signal.ITIMER_REAL, 0)
                if r2 != r:
                    viol.append(('C01', 'the tokens %s given as the list of lines %r: %s, given as the text %r: %s (grammar start=%s prods=%s smart=%s)' % (
                        toks, lines, r2, text, r, start, prods, smart), pcase, []))
                    if exact and r in ('tree', 'ParsingError'):
                        viol.append(('C02', 'conflict-free grammar start=%s prods=%s smart=%s: the tokens %s given as the list of lines %r give %s, the '
                                     'same tokens given as one text give %s' % (start, prods, smart, toks, lines, r2, r), pcase, []))
                elif r2 == 'tree':
                    obs.append({'g': gdesc, 'toks': etoks2, 'res': r2, 'tree': tj2, 'exact': bool(exact),
                                'smart': smart, 'kw': kw, 'tn': toks, 'aslist': True})
        # parse(..., start_symbol_name=X): whatever comes back must be a derivation from X (C01); whether a
        # sentence of X is accepted is not judged (the table is built for the constructor's start symbol)
        if not case['leftrec'] and not noskip and not kw:
            for X in sorted(prods):
                if X == start:
                    continue
                for toks in all_inputs(terms, min(k, 3)):
                    text, etoks = render(toks, kw, salt=len(toks))
                    n += 1
                    signal.setitimer(signal.ITIMER_REAL, budget)
                    try:
                        t = p.parse_counted(text, STEP_BUDGET, do_cleanup=False, start_symbol_name=X)
                    except Exception:
                        continue
                    finally:
                        signal.setitimer(signal.ITIMER_REAL, 0)
                    obs.append({'g': dict(gdesc, start=X, ctor_start=start), 'toks': etoks, 'res': 'tree', 'tree': tree_json(t), 'exact': False,
                                'smart': smart, 'kw': kw, 'tn': toks, 'xstart': True})
        amb_after = p.is_ambiguous()
        if amb_after != amb:
            viol.append(('C02', 'is_ambiguous() changed from %s to %s after parsing %d texts: start=%s prods=%s smart=%s' % (
                amb, amb_after, len(results), start, prods, smart), {'g': gdesc, 'smart': smart, 'kw': kw, 'kind': 'amb'}, []))
        res_by_smart[smart] = (amb, results)
    if len(res_by_smart) == 2 and not case['leftrec']:
        (a1, r1), (a2, r2) = res_by_smart[True], res_by_smart[False]
        if not a1 and not a2 and r1 != r2:
            i = [x != y for x, y in zip(r1, r2)].index(True)
            toks = all_inputs(terms, k)[i]
            viol.append(('C02', 'conflict-free for both smart_factorization settings but outcomes differ on %s: '
                         'start=%s prods=%s' % (toks, start, prods),
                         {'g': gdesc, 'toks': toks, 'kw': kw, 'kind': 'smartdiff'}, []))
    return {'viol': viol, 'obs': obs, 'n': n, 'ctor': ctor, 'maxsteps': maxsteps}


def _worker_init():
    signal.signal(signal.SIGALRM, _alarm)


def replay_jobs(jobs):
    """run run_grammar over jobs in worker processes (signals need the main thread of each)"""
    import multiprocessing as mp
    if len(jobs) < 32:
        _worker_init()
        return [run_grammar(j) for j in jobs]
    with mp.get_context('fork').Pool(16, initializer=_worker_init) as pool:
        return pool.map(run_grammar, jobs, chunksize=max(1, min(400, len(jobs) // 64)))


def judge_obs(ctx, obs, chunk=30000):
    """code -> spec: judge tree observations with LLJudge; returns list of (verdict, obs)"""
    bad = []
    cfg = 'SPECIFICATION Spec\nCHECK_DEADLOCK FALSE\n'
    for off in range(0, len(obs), chunk):
        part = obs[off:off + chunk]
        path = os.path.join(ctx.tmp, 'lljudge_%d.ndjson' % off)
        with open(path, 'w') as f:
            for o in part:
                f.write(json.dumps({'g': {'start': o['g']['start'], 'prods': o['g']['prods'],
                                          'terms': o['g']['terms']},
                                    'toks': o['toks'], 'res': o['res'], 'tree': o['tree'],
                                    'exact': o['exact']}) + '\n')
        r = ctx.tlc('llparser/LLJudge.tla', cfg, env={'CASES': path}, workers=16, timeout=3600)
        os.unlink(path)
        seen = 0
        for ln in r.raw_printed:
            if ln.startswith('<<"ACCEPT", '):
                seen += 1
            elif ln.startswith('<<"REJECT-'):
                seen += 1
                kind, tid = ln[2:-2].split(', ')
                bad.append((kind.strip('"'), part[int(tid) - 1]))
        if seen != len(part):
            raise Machinery('LLJudge gave %d verdicts for %d cases' % (seen, len(part)))
    return bad


def explore(ctx, want):
    """Run the whole pipeline; report only violations of property `want`."""
    fams = ['Q2', 'A1', 'P1', 'C3'] if ctx.quick else ['A2', 'A1', 'P1', 'C3', 'P2']
    if want == 'C03':
        fams = fams + ['R3', 'N3']
    if want == 'C02':
        fams = fams + ['W6', 'H3', 'F4', 'Y4']
    total_parses = 0
    ngram = 0
    nobs = 0
    for fam in fams:
        numnt, terms, maxalts, maxlen, k, _pfx = FAMILIES[fam][:6]
        r = ctx.tlc('llparser/LLCases.tla', cases_cfg(fam), workers=16, timeout=3600, heap='12g')
        cases = [c for c in r.printed if isinstance(c, dict)]
        if not cases:
            raise Machinery('LLCases emitted nothing')
        ngram += len(cases)
        budget = 120.0
        jobs = [(c, terms, k, False, budget) for c in cases]
        # keywords / synonyms tokenizer on a seeded sample
        kwn = 2000 if ctx.quick else 20000
        jobs += [(c, terms, k, True, budget) for c in ctx.rnd.sample(cases, min(kwn, len(cases)))]
        # reversed insertion order of the productions dict (all grammars in thorough, a sample in quick)
        if numnt > 1:
            revn = 20000 if ctx.quick else len(cases)
            jobs += [(c, terms, k, False, budget, True) for c in ctx.rnd.sample(cases, min(revn, len(cases)))]
        # explicitly empty skip_tokens on a seeded sample
        jobs += [(c, terms, k, False, budget, False, True) for c in ctx.rnd.sample(cases, min(kwn, len(cases)))]
        results = replay_jobs(jobs)
        obs = []
        for job, res in zip(jobs, results):
            total_parses += res['n']
            ctx.extra['max_machine_steps_seen'] = max(ctx.extra.get('max_machine_steps_seen', 0), res['maxsteps'])
            for prop, what, case, tags in res['viol']:
                if prop == want:
                    ctx.violation(case, what, tags)
            obs += res['obs']
        del results
        if want in ('C01', 'C02'):
            # I-spec binding on a seeded sample of the accepted grammars of this family
            ok = [c for c in cases if not c['leftrec']]
            nsamp = (150 if ctx.quick else 6000)
            samp = ctx.rnd.sample(ok, min(nsamp, len(ok)))
            ijobs = [(c, terms, min(k, 3), (i % 2 == 0), (i % 4 == 1)) for i, c in enumerate(samp)]
            st = internals_check(ctx, ijobs, want)
            agg = ctx.extra.setdefault('ispec_binding', {})
            for kk, vv in st.items():
                agg[kk] = max(agg.get(kk, 0), vv) if kk == 'max_machine_steps' else agg.get(kk, 0) + vv
            if want == 'C01':
                nts = sorted(samp[0]['prods']) if samp else []
                cjobs = [(c, terms, min(k, 3), (i % 2 == 0), ([nts[-1]] if i % 3 == 0 else None)) for i, c in enumerate(samp)]
                cs = cleanup_check(ctx, cjobs)
                cagg = ctx.extra.setdefault('generic_cleanup_ispec', {'trees': 0, 'diffs': 0})
                cagg['trees'] += cs['trees']
                cagg['diffs'] += cs['diffs']
        if want in ('C01',):
            # dedupe identical observations (both smart settings usually give the same tree)
            seen = set()
            uniq = []
            for o in obs:
                key = json.dumps([o['g'], o['toks'], o['tree']], sort_keys=True)
                if key not in seen:
                    seen.add(key)
                    uniq.append(o)
            if ctx.quick and len(uniq) > 60000:
                uniq = ctx.rnd.sample(uniq, 60000)
            # negative self-tests
            probe = dict(uniq[0])
            bad_tree = json.loads(json.dumps(probe))
            bad_tree['toks'] = bad_tree['toks'] + [{'n': 'a', 'v': 'a'}]
            bad2 = json.loads(json.dumps(probe))
            bad2['tree'] = {'n': bad2['tree']['n'] + '__S00', 'k': bad2['tree']['k']}
            uniq_all = uniq + [bad_tree, bad2]
            bad = judge_obs(ctx, uniq_all)
            hit = [b for b in bad if b[1] is bad_tree or b[1] is bad2]
            ctx.selftest(len(hit) == 2, 'LLJudge accepted a corrupted tree observation')
            for kind, o in bad:
                if o is bad_tree or o is bad2:
                    continue
                if kind == 'REJECT-TREE':
                    ctx.violation({'g': o['g'], 'smart': o['smart'], 'kw': o['kw'], 'toks': o['tn'], 'kind': 'parse'},
                                  'parse%s returned a tree that is not a valid derivation of the user grammar%s: '
                                  'start=%s prods=%s smart=%s tokens=%s tree=%s' % (
                                      '(start_symbol_name=%r)' % o['g']['start'] if o.get('xstart') else '',
                                      ' (skip_tokens=set(): white space tokens are part of the input)' if o['g'].get('noskip') else '',
                                      o['g'].get('ctor_start') or o['g']['start'], o['g']['prods'], o['smart'], o['tn'], json.dumps(o['tree'])))
            nobs += len(uniq)
            for o in uniq[:2]:
                ctx.sample({'grammar': o['g'], 'tokens': o['tn'], 'tree': o['tree']})
        else:
            nobs += len(obs)
            for c in cases[:1] + cases[len(cases) // 2:len(cases) // 2 + 1]:
                ctx.sample(c)
    ctx.traces = ngram if want != 'C01' else nobs
    ctx.extra['grammars'] = ngram
    ctx.extra['parses'] = total_parses
    ctx.extra['tree_observations'] = nobs
    ctx.extra['families'] = {f: FAMILIES[f] for f in fams}
    ctx.exhaustive = True
    ctx.assumptions += [
        'grammar family bounded as in coverage.families (NumNT, terminals, alternatives per symbol, symbols per '
        'alternative, input length); adjacent duplicate alternatives excluded (constructor asserts)',
        'non-termination is detected by a deterministic budget of %d machine steps per parse (counted through the parser\'s overridable debug hooks); a 120 s wall-clock alarm is only a backstop' % STEP_BUDGET,
    ]


def names_tree(t):
    v = t.value
    if v is None:
        return {'n': t.name, 'k': []}
    if isinstance(v, list):
        return {'n': t.name, 'k': [names_tree(x) for x in v]}
    return {'n': t.name, 'v': t.name}


def internals_job(job):
    """I-spec binding: reads private attributes of the parser; when the implementation no longer has them the job gives
    nothing (the binding is skipped, the A-level checks are not affected)"""
    try:
        return _internals_job(job)
    except (AttributeError, TypeError, KeyError, IndexError, StopIteration, ValueError):
        return None


def _internals_job(job):
    """real parser internals + recorded machine runs of one grammar, for LLMachine.tla"""
    case, terms, k, smart, rev = job
    from ak.llparser import ParsingError
    try:
        p = mk_parser(case['prods'], case['start'], smart, False, rev)
    except Exception:
        return None
    pm = {sym: [list(r.production) for r in rules] for sym, rules in p.prods_map.items()}
    table = []
    for (sym, tok), rules in p.parse_table.items():
        idx = [next(i for i, r in enumerate(p.prods_map[sym]) if r is x) for x in rules]
        table.append({'sym': sym, 'tok': tok, 'alts': [i + 1 for i in idx]})
    runs = []
    noerr = {'sym': '', 'toks': [], 'alts': []}
    import ak.llparser as _llp

    class _RecordingError(ParsingError):
        """ParsingError that keeps what it was constructed from (the message is all the original keeps)"""
        def __init__(self, symbol, next_tokens, attempted_prod_rules):
            self.rec = {'sym': symbol, 'toks': [t.name for t in next_tokens],
                        'alts': [list(pr.production) for pr in attempted_prod_rules]}
            super().__init__(symbol, next_tokens, attempted_prod_rules)
    for toks in all_inputs(terms, k):
        text, _ = render(toks, False)
        p.record = []
        _llp.ParsingError = _RecordingError
        try:
            t = p.parse_counted(text, STEP_BUDGET, do_cleanup=False)
            runs.append({'toks': toks, 'res': 'tree', 'tree': names_tree(t), 'events': p.record, 'err': noerr})
        except ParsingError as e:
            runs.append({'toks': toks, 'res': 'ParsingError', 'tree': {'n': 'none', 'k': []}, 'events': p.record,
                         'err': getattr(e, 'rec', noerr)})
        except Exception:
            pass
        finally:
            p.record = None
            _llp.ParsingError = ParsingError
    return {'g': {'start': case['start'], 'terms': terms, 'prods': case['prods']}, 'pm': pm,
            'suffix': sorted(p._suffix_symbols), 'table': table, 'runs': runs, 'smart': smart, 'rev': rev}


def clean_tree(t):
    v = t.value
    if v is None:
        return {'n': t.name, 'leaf': True, 'none': True, 'v': ''}
    if isinstance(v, list):
        return {'n': t.name, 'leaf': False, 'k': [clean_tree(x) for x in v]}
    return {'n': t.name, 'leaf': True, 'none': False, 'v': str(v)}


def cleanup_job(job):
    """I-spec binding of the generic cleanup: reads private attributes; gives nothing when they are gone"""
    try:
        return _cleanup_job(job)
    except (AttributeError, TypeError, KeyError, IndexError, StopIteration, ValueError):
        return []


def _cleanup_job(job):
    """raw and cleaned trees of one grammar (no templates) for LLCleanup.tla"""
    case, terms, k, smart, keep = job
    from ak.llparser import ParsingError
    LLParser = parser_class()
    pp = {nt: [tuple(a) if a else None for a in alts] for nt, alts in case['prods'].items()}
    try:
        p = LLParser(TOK_PLAIN, productions=pp, start_symbol_name=case['start'], smart_factorization=smart,
                     keep_symbols=set(keep) if keep else None)
    except Exception:
        return []
    pm = {sym: [list(r.production) for r in rules] for sym, rules in p.prods_map.items()}
    out = []
    for toks in all_inputs(terms, k):
        text, _ = render(toks, False)
        try:
            raw = p.parse(text, do_cleanup=False)
            cleaned = p.parse(text)
        except ParsingError:
            continue
        except Exception:
            continue
        out.append({'pm': pm, 'suffix': sorted(p._suffix_symbols), 'keep': sorted(set(keep or []) | {case['start']}),
                    'raw': clean_tree(raw), 'cleaned': clean_tree(cleaned), 'g': case['prods'], 'start': case['start'], 'toks': toks})
    return out


def cleanup_check(ctx, jobs):
    """growth item: the generic cleanup (squash rules) of real parsers against LLCleanup.tla; differences are DRIFT"""
    import re as _re
    cases = [c for part in pmap(cleanup_job, jobs, chunk=50) for c in part]
    if jobs and not cases:
        ctx.note_drift('the parser no longer exposes what the I-spec binding (LLCleanup) reads: the binding is skipped')
    ndiff = 0
    CH = 20000
    for off in range(0, len(cases), CH):
        part = cases[off:off + CH]
        path = os.path.join(ctx.tmp, 'llcleanup_%d.ndjson' % off)
        with open(path, 'w') as f:
            for c in part:
                f.write(json.dumps({k: c[k] for k in ('pm', 'suffix', 'keep', 'raw', 'cleaned')}) + '\n')
        r = ctx.tlc('llparser/LLCleanup.tla', 'SPECIFICATION Spec\nCHECK_DEADLOCK FALSE\n', env={'CASES': path}, workers=16, timeout=3600)
        os.unlink(path)
        seen = 0
        for ln in set(r.raw_printed):
            m = _re.match(r'<<"CLEAN-(OK|DIFF)", (\d+)>>', ln)
            if m:
                seen += 1
                if m.group(1) == 'DIFF':
                    ndiff += 1
                    c = part[int(m.group(2)) - 1]
                    if ndiff <= 3:
                        ctx.note_drift('generic cleanup differs from LLCleanup: start=%s prods=%s keep=%s tokens=%s cleaned=%s' % (
                            c['start'], c['g'], c['keep'], c['toks'], json.dumps(c['cleaned'])))
        if seen != len(part):
            raise Machinery('LLCleanup gave %d verdicts for %d trees' % (seen, len(part)))
    return {'trees': len(cases), 'diffs': ndiff}


def internals_check(ctx, jobs, what):
    """I-spec binding: table (C02), factorization and machine runs (C01) of real parsers against LLMachine.tla.
    Disagreements are DRIFT (the property verdicts come from the A-spec judges)."""
    import re as _re
    cases = [c for c in pmap(internals_job, jobs, chunk=50) if c is not None]
    if jobs and not cases:
        ctx.note_drift('the parser no longer exposes what the I-spec binding (LLMachine) reads: the binding is skipped')
    stats = {'parsers': len(cases), 'runs': sum(len(c['runs']) for c in cases), 'TABLE-DIFF': 0, 'FACTOR-DIFF': 0, 'run_diffs': 0,
             'max_machine_steps': 0}
    CH = 1500
    for off in range(0, len(cases), CH):
        part = cases[off:off + CH]
        path = os.path.join(ctx.tmp, 'llmachine_%d.ndjson' % off)
        with open(path, 'w') as f:
            for c in part:
                f.write(json.dumps({k: c[k] for k in ('g', 'pm', 'suffix', 'table', 'runs')}) + '\n')
        r = ctx.tlc('llparser/LLMachine.tla', 'SPECIFICATION Spec\nCHECK_DEADLOCK FALSE\nINVARIANT StackBound\nINVARIANT FramesChained\nINVARIANT LongestInText\n'
                    'PROPERTY Terminates\n', env={'CASES': path}, workers=16, timeout=3600, heap='12g')
        os.unlink(path)
        nstatic = nrun = 0
        # TLC evaluates actions more than once when it checks the liveness property: keep one line per verdict
        for ln in sorted(set(r.raw_printed)):
            m = _re.match(r'<<"(TABLE|FACTOR)-(OK|DIFF)", (\d+)>>', ln)
            if m:
                nstatic += 1
                if m.group(2) == 'DIFF':
                    stats[m.group(1) + '-DIFF'] += 1
                    c = part[int(m.group(3)) - 1]
                    if (m.group(1) == 'TABLE') == (what == 'C02') or what == 'C01':
                        ctx.note_drift('%s of the real parser differs from the I-spec: start=%s prods=%s smart=%s' % (
                            m.group(1).lower(), c['g']['start'], c['g']['prods'], c['smart']))
                continue
            m = _re.match(r'<<"(RUN-[A-Z-]+)", (\d+), (\d+), (\d+), (\d+)>>', ln)
            if m:
                nrun += 1
                stats['max_machine_steps'] = max(stats['max_machine_steps'], int(m.group(5)))
                if m.group(1) != 'RUN-OK':
                    stats['run_diffs'] += 1
                    c = part[int(m.group(2)) - 1]
                    run = c['runs'][int(m.group(3)) - 1]
                    ctx.note_drift('%s at event %s: start=%s prods=%s smart=%s tokens=%s' % (
                        m.group(1), m.group(4), c['g']['start'], c['g']['prods'], c['smart'], run['toks']))
        if nstatic != 2 * len(part) or nrun != sum(len(c['runs']) for c in part):
            raise Machinery('LLMachine gave %d static and %d run verdicts for %d parsers' % (nstatic, nrun, len(part)))
    return stats


def eval_grammars(ctx, grams):
    """A-spec verdicts (leftrec, ll1, lang up to k) for explicit grammars [{start, terms, prods, k}]"""
    path = os.path.join(ctx.tmp, 'lleval_%d.ndjson' % len(grams))
    with open(path, 'w') as f:
        for g in grams:
            f.write(json.dumps({'start': g['start'], 'terms': g['terms'], 'prods': g['prods'], 'k': g['k']}) + '\n')
    r = ctx.tlc('llparser/LLEval.tla', 'SPECIFICATION Spec\nCHECK_DEADLOCK FALSE\n', env={'CASES': path},
                workers=8, timeout=3600)
    out = [None] * len(grams)
    for d in r.printed:
        if isinstance(d, dict) and 'id' in d:
            out[d['id'] - 1] = d
    if any(o is None for o in out):
        raise Machinery('LLEval did not evaluate every grammar')
    return out


def replay_case(ctx, case, want):
    g = case['g']
    k = max(3, len(case.get('toks') or []))
    cstart = g.get('ctor_start') or g['start']      # parse(start_symbol_name=...) cases name the constructor's start too
    ev = eval_grammars(ctx, [{'start': cstart, 'terms': g['terms'], 'prods': g['prods'], 'k': k}])[0]
    job = ({'start': cstart, 'prods': g['prods'], 'leftrec': ev['leftrec'], 'lrsyms': ev['lrsyms'],
            'll1': ev['ll1'], 'lang': ev['lang']}, g['terms'], k, bool(case.get('kw')), 120.0, bool(g.get('rev')),
           bool(g.get('noskip')))
    _worker_init()
    res = run_grammar(job)
    for prop, what, c, tags in res['viol']:
        if prop == want:
            return what
    if want == 'C01':
        bad = judge_obs(ctx, res['obs'])
        for kind, o in bad:
            if kind == 'REJECT-TREE':
                return 'invalid derivation tree for tokens %s: %s' % (o['tn'], json.dumps(o['tree']))
    return None
