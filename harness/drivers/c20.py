"""C20 - short uuid strings are a bijective encoding of UUIDs.

specs/uuid/ShortUuid.tla    algorithm + property on scaled-down constants (exhaustive)
specs/uuid/LimbsCheck.tla   limb arithmetic == Naturals (exhaustive, small limb base)
specs/uuid/ShortUuidBig.tla the same loops on limb numbers with the real constants; judges
                            observations recorded from the real functions
"""
import json
import os
import uuid as real_uuid

from vcheck import Machinery

INSTANCES = [(3, 4, 64), (5, 3, 100), (2, 5, 20)]
FOREIGN = 99


def _cfg(consts, invs, props=(), spec='Spec', extra=''):
    s = 'SPECIFICATION %s\nCHECK_DEADLOCK FALSE\n' % spec
    if consts:
        s += 'CONSTANTS\n' + ''.join('  %s = %s\n' % kv for kv in consts.items())
    s += ''.join('INVARIANT %s\n' % i for i in invs)
    s += ''.join('PROPERTY %s\n' % i for i in props)
    return s + extra


class _SmallUuidModule:
    """stand-in for the `uuid` module inside ak.short_uuid for a scaled-down instance"""

    def __init__(self, mx):
        mod = self

        class UUID:
            def __init__(self, hex=None, int=None):
                if hex is not None:
                    raise ValueError('badly formed hexadecimal UUID string')
                if not 0 <= int < mx:
                    raise ValueError('int is out of range')
                self.int = int

            def __eq__(self, o):
                return isinstance(o, UUID) and o.int == self.int
        self.UUID = UUID
        mod.mx = mx


def _observe_alphabet(su):
    """the 57 letters as the public interface shows them: the first character of the encoding of k is digit k (least
    significant digit first).  Everything the driver says about digits is relative to this observation; whether the
    encoding is positional, 22 characters long and injective is what the spec judges."""
    alpha = []
    for k in range(57):
        outc, s = _call(su.uuid_to_short_str, real_uuid.UUID(int=k))
        alpha.append(s[0] if (outc == 'ok' and isinstance(s, str) and s) else None)
    good = [a for a in alpha if a is not None]
    if len(set(good)) != 57:
        # not 57 distinct letters: replace what is unusable by private-use characters so that the judge sees foreign digits
        seen, out = set(), []
        for k, a in enumerate(alpha):
            if a is None or a in seen:
                a = chr(0xE000 + k)
            seen.add(a)
            out.append(a)
        alpha = out
    su._ALPHABET_ORIG = list(alpha)
    su._INDEX_ALPHABET_ORIG = dict((c, i) for i, c in enumerate(alpha))
    return alpha


def _calibration(su):
    """the scaled-down instances patch module constants: that is only meaningful while the module has the shape the
    I-level model assumes.  -> None when it has, else the reason (the instances are skipped then, no verdict)"""
    import inspect
    allowed = {'_ALPHABET', '_INDEX_ALPHABET', '_SHORT_GUID_LEN', 'uuid'}
    g = vars(su)
    for n in ('_ALPHABET', '_SHORT_GUID_LEN', 'uuid'):
        if n not in g:
            return 'module has no %s' % n
    if list(g['_ALPHABET']) != list(su._ALPHABET_ORIG) or g['_SHORT_GUID_LEN'] != 22 or g['uuid'] is not real_uuid:
        return 'module constants differ from what the public interface shows'
    if '_INDEX_ALPHABET' in g and g['_INDEX_ALPHABET'] != su._INDEX_ALPHABET_ORIG:
        return '_INDEX_ALPHABET is not the index of _ALPHABET'
    own = {n: v for n, v in g.items() if not n.startswith('__')}
    for n, v in own.items():
        if inspect.isclass(v) and getattr(v, '__module__', None) == su.__name__:
            return 'module defines the class %s' % n

    def names(code):
        out = set(code.co_names)
        for c in code.co_consts:
            if inspect.iscode(c):
                out |= names(c)
        return out
    for n, v in own.items():
        if inspect.isfunction(v) and v.__module__ == su.__name__:
            for ref in names(v.__code__):
                if ref in own and ref not in allowed and not (inspect.isfunction(own[ref]) and own[ref].__module__ == su.__name__) \
                        and not inspect.ismodule(own[ref]):
                    return 'function %s reads the module global %s' % (n, ref)
        elif not inspect.isfunction(v) and not inspect.ismodule(v) and n not in allowed and not n.endswith('_ORIG') and n != '_ALPHA_IS_STR':
            if callable(v):
                return 'module global %s is a callable object' % n
    return None


def _patched(su, base, ln, mx):
    alpha = su._ALPHABET_ORIG[:base]
    su._ALPHABET = ''.join(alpha) if su._ALPHA_IS_STR else list(alpha)
    if hasattr(su, '_INDEX_ALPHABET'):
        su._INDEX_ALPHABET = dict((c, i) for i, c in enumerate(alpha))
    su._SHORT_GUID_LEN = ln
    su.uuid = _SmallUuidModule(mx)
    return alpha


def _unpatch(su):
    su._ALPHABET = ''.join(su._ALPHABET_ORIG) if su._ALPHA_IS_STR else list(su._ALPHABET_ORIG)
    if hasattr(su, '_INDEX_ALPHABET'):
        su._INDEX_ALPHABET = dict((c, i) for i, c in enumerate(su._ALPHABET_ORIG))
    su._SHORT_GUID_LEN = 22
    su.uuid = real_uuid


def _call(f, *a):
    try:
        return 'ok', f(*a)
    except ValueError:
        return 'ValueError', None
    except Exception as e:          # the property names ValueError only
        return 'other:' + type(e).__name__, None


def _small(ctx, su):
    """spec -> code: every case of the scaled-down instances, replayed on the real functions"""
    n_cases = 0
    for base, ln, mx in INSTANCES:
        r = ctx.tlc('uuid/ShortUuid.tla',
                    _cfg({'Base': base, 'L': ln, 'Max': mx, 'Emit': 'TRUE'},
                         ['EncCorrect', 'DecCorrect', 'LoopInv', 'DecLoopInv', 'RoundTrip']),
                    workers=1, timeout=900)
        # liveness of the loops (no constraint, weak fairness), without emission
        ctx.tlc('uuid/ShortUuid.tla',
                _cfg({'Base': base, 'L': ln, 'Max': mx, 'Emit': 'FALSE'}, [], ['Terminates']),
                workers=4, timeout=900)
        cases = [c for c in r.printed if isinstance(c, dict)]
        expect = mx + sum((base + 1) ** k for k in range(ln + 2))
        if len(cases) != expect:
            raise Machinery('ShortUuid emitted %d cases, expected %d' % (len(cases), expect))
        alpha = _patched(su, base, ln, mx)
        foreign_chars = ['!', 'l', '0', ' ', 'é']
        try:
            for c in cases:
                n_cases += 1
                if c['mode'] == 'enc':
                    n = c['inp']
                    outc, s = _call(su.uuid_to_short_str, su.uuid.UUID(int=n))
                    want = ''.join(alpha[d] for d in c['out'])
                    if outc != 'ok' or s != want:
                        ctx.violation({'kind': 'small-enc', 'instance': [base, ln, mx], 'n': n},
                                      'encode(%d) with (Base,L,Max)=%s gives %r (%s), spec says %r' % (
                                          n, (base, ln, mx), s, outc, want))
                    if n_cases % 97 == 0:
                        ctx.sample({'instance': [base, ln, mx], 'encode': n, 'real': s, 'spec': want})
                else:
                    digs = c['inp']
                    for fc in (foreign_chars if base in digs else ['']):
                        s = ''.join(alpha[d] if d < base else fc for d in digs)
                        for fn in ('uuid_from_short_str', 'uuid_from_str'):
                            outc, u = _call(getattr(su, fn), s)
                            want = 'ok' if c['ok'] else 'ValueError'
                            good = outc == want and (outc != 'ok' or u.int == c['n'])
                            if not good:
                                tags = ['uuid.foreign_char_keyerror'] if (
                                    outc == 'other:KeyError' and base in digs and len(digs) == ln) else []
                                ctx.violation(
                                    {'kind': 'small-dec', 'instance': [base, ln, mx], 'digits': digs,
                                     'foreign': fc, 'fn': fn},
                                    '%s(%r) with (Base,L,Max)=%s -> %s %s, spec says %s %s' % (
                                        fn, s, (base, ln, mx), outc, getattr(u, 'int', None), want,
                                        c['n'] if c['ok'] else ''), tags)
                    if n_cases % 211 == 0:
                        ctx.sample({'instance': [base, ln, mx], 'decode': digs, 'spec_ok': c['ok']})
        finally:
            _unpatch(su)
    return n_cases


def _limbs(n, k=8):
    return [(n >> (16 * i)) & 0xFFFF for i in range(k)]


def _digits(s, su):
    return [su._INDEX_ALPHABET_ORIG.get(ch, FOREIGN) for ch in s]


def _big_inputs(ctx, su, n_random):
    nums = set()
    for k in range(129):
        for d in (-1, 0, 1):
            v = (1 << k) + d
            if 0 <= v < (1 << 128):
                nums.add(v)
    for k in range(23):
        for d in (-1, 0, 1):
            v = 57 ** k + d
            if 0 <= v < (1 << 128):
                nums.add(v)
        v = 56 * 57 ** k
        if v < (1 << 128):
            nums.add(v)
        nums.add((57 ** k - 1) % (1 << 128))
    for _ in range(n_random):
        nums.add(ctx.rnd.getrandbits(128))
        nums.add(ctx.rnd.getrandbits(ctx.rnd.randrange(1, 129)))
    # families of numbers that agree in what a truncated / hashed key would keep (hash(int) is the value mod 2^61 - 1):
    # all are encoded in one process, the smaller ones first
    for base in (0, 1, 57, 12345678901234567890, ctx.rnd.getrandbits(60), ctx.rnd.getrandbits(100)):
        for m in CONGRUENCE_MODULI:
            for k in (1, 2, 3, 12345, (1 << 60) + 7):
                v = base + k * m
                if v < (1 << 128):
                    nums.add(v)
                    nums.add(base)
    return sorted(nums)


CONGRUENCE_MODULI = ((1 << 61) - 1, 1 << 64, 1 << 32, 1 << 63)


def _partners(n, numset):
    """smaller sampled numbers congruent to n modulo one of the moduli (they were encoded before n)"""
    out = []
    for m in CONGRUENCE_MODULI:
        for x in numset:
            if x < n and (n - x) % m == 0:
                out.append(x)
    return sorted(set(out))[:8]


def _int_to_digits(n):
    out = []
    while n:
        n, d = divmod(n, 57)
        out.append(d)
    return out


def _big_strings(ctx, su, n_random):
    """candidate strings: valid ones, wrong lengths, foreign characters, overflow"""
    al = su._ALPHABET_ORIG
    strs = set()
    top = _int_to_digits((1 << 128) - 1)             # largest valid, 22 digits
    base_s = ''.join(al[d] for d in top)
    strs.add(base_s)
    # smallest number >= 2**128 and neighbours, all-z
    for v in ((1 << 128), (1 << 128) + 1, (1 << 128) - 2, 57 ** 22 - 1):
        d = _int_to_digits(v)
        d += [0] * (22 - len(d))
        strs.add(''.join(al[x] for x in d))
    for ln in (0, 1, 21, 23, 44):
        strs.add(al[3] * ln)
    foreign = [chr(c) for c in range(32, 127) if chr(c) not in al] + ['é', '\n']
    valid = ''.join(al[ctx.rnd.randrange(57)] for _ in range(21)) + al[0]
    for pos in range(22):
        for fc in foreign:
            strs.add(valid[:pos] + fc + valid[pos + 1:])
    # a valid short string with the decorations that uuid.UUID() tolerates for the usual form
    for deco in (valid[:11] + '-' + valid[11:], '{' + valid + '}', 'urn:uuid:' + valid, 'urn:' + valid, 'uuid:' + valid,
                 '-' + valid, valid + '-', valid[:8] + '-' + valid[8:12] + '-' + valid[12:]):
        strs.add(deco)
    # white space / line ends around a valid string (23 characters and more: to be rejected), and strings that differ from a
    # valid one only in the case of their letters (other strings: other UUIDs, or no UUID at all)
    for v2 in (valid, ''.join(al[ctx.rnd.randrange(57)] for _ in range(21)) + al[1]):
        for deco in (v2 + '\n', '\n' + v2, v2 + ' ', ' ' + v2, v2 + '\r\n', v2 + '\t', v2[:-1] + '\n', v2 + '\x00'):
            strs.add(deco)
        for twin in (v2.lower(), v2.upper(), v2.swapcase(), v2[:5].swapcase() + v2[5:]):
            strs.add(twin)
    for _ in range(n_random):
        k = ctx.rnd.random()
        if k < 0.6:
            s = ''.join(al[ctx.rnd.randrange(57)] for _ in range(22))
        elif k < 0.8:
            s = ''.join(al[ctx.rnd.randrange(57)] for _ in range(ctx.rnd.randrange(0, 30)))
        else:
            s = ''.join(chr(ctx.rnd.randrange(33, 127)) for _ in range(22))
        strs.add(s)
    return sorted(strs)


def _observe_big(su, nums, strs):
    cases = []
    direct = []       # violations decided without the judge (observation outside the spec's alphabet)
    for n in nums:
        u = real_uuid.UUID(int=n)
        outc, s = _call(su.uuid_to_short_str, u)
        if outc != 'ok' or not isinstance(s, str):
            direct.append(({'kind': 'enc', 'n': n}, 'uuid_to_short_str raised %s' % outc, []))
            continue
        cases.append({'kind': 'enc', 'limbs': _limbs(n), 'out': _digits(s, su), 'src': n})
        # canonical form must be accepted by uuid_from_str
        outc2, u2 = _call(su.uuid_from_str, str(u))
        if outc2 != 'ok' or u2 != u:
            direct.append(({'kind': 'from_str_canonical', 'n': n},
                           'uuid_from_str(%r) -> %s %r' % (str(u), outc2, u2), []))
    for s in strs:
        for fn in ('uuid_from_short_str', 'uuid_from_str'):
            outc, u = _call(getattr(su, fn), s)
            digs = _digits(s, su)
            if outc.startswith('other:'):
                tags = ['uuid.foreign_char_keyerror'] if (
                    outc == 'other:KeyError' and FOREIGN in digs and len(digs) == 22) else []
                direct.append(({'kind': 'dec', 'str': s, 'fn': fn},
                               '%s(%r) raises %s, the property allows only ValueError' % (fn, s, outc[6:]),
                               tags))
                continue
            cases.append({'kind': 'dec', 'str': digs, 'outc': outc,
                          'limbs': _limbs(u.int) if outc == 'ok' else _limbs(0), 'src': s, 'fn': fn})
    return cases, direct


def _judge(ctx, cases):
    path = os.path.join(ctx.tmp, 'c20_cases_%d.ndjson' % len(cases))
    with open(path, 'w') as f:
        for c in cases:
            f.write(json.dumps({k: v for k, v in c.items() if k not in ('src', 'fn')}) + '\n')
    r = ctx.tlc('uuid/ShortUuidBig.tla', _cfg({}, ['Shape']), env={'CASES': path}, workers=16,
                timeout=1800)
    acc, rej = set(), set()
    for ln in r.raw_printed:
        if ln.startswith('<<"ACCEPT", '):
            acc.add(int(ln[12:-2]))
        elif ln.startswith('<<"REJECT", '):
            rej.add(int(ln[12:-2]))
    if len(acc) + len(rej) != len(cases) or acc & rej:
        raise Machinery('judge produced %d+%d verdicts for %d cases' % (len(acc), len(rej), len(cases)))
    return rej


def run(ctx):
    from ak import short_uuid as su
    _observe_alphabet(su)
    why_not = _calibration(su)
    su._ALPHA_IS_STR = isinstance(getattr(su, '_ALPHABET', None), str)
    ctx.assumptions += [
        'TLC (tla2tools 1.8) evaluates the specs correctly',
        'real-size UUIDs are covered by boundary-directed and seeded random samples, not exhaustively',
        'scaled-down instances run the real functions with patched module constants (_ALPHABET, '
        '_INDEX_ALPHABET, _SHORT_GUID_LEN, uuid stand-in); the code paths are the same',
    ]
    # 1. limb arithmetic used by the real-size judge equals Naturals
    ctx.tlc('uuid/LimbsCheck.tla',
            'INIT Init\nNEXT Next\nCHECK_DEADLOCK FALSE\nCONSTANTS\n  LB = 4\n  N = 3\n  D = 7\n'
            'INVARIANT DivOK\nINVARIANT MulOK\nINVARIANT LessOK\n', workers=8, timeout=600)
    # 2. scaled-down instances, exhaustive, spec -> code
    if why_not is None:
        n_small = _small(ctx, su)
    else:
        n_small = 0
        ctx.note_drift('ak.short_uuid no longer has the shape the scaled-down instances assume (%s): they are skipped, the real-size checks decide' % why_not)
    ctx.extra['scaled_instances_calibration'] = why_not or 'ok'
    # 3. real constants, code -> spec
    n_rand = 300 if ctx.quick else 20000
    nums = _big_inputs(ctx, su, n_rand)
    strs = _big_strings(ctx, su, n_rand)
    cases, direct = _observe_big(su, nums, strs)
    for case, what, tags in direct:
        ctx.violation(case, what, tags)
    # negative self-tests: corrupted observations must be rejected
    probe_n = 0x1234567890abcdef1234567890abcdef
    good = (_int_to_digits(probe_n) + [0] * 22)[:22]       # computed here, not by the code under test
    bad1 = {'kind': 'enc', 'limbs': _limbs(probe_n), 'out': [(good[0] + 1) % 57] + good[1:], 'src': 'selftest'}
    bad2 = {'kind': 'dec', 'str': [1] * 22, 'outc': 'ValueError', 'limbs': _limbs(0), 'src': 'selftest'}
    bad3 = {'kind': 'dec', 'str': [1] * 21 + [FOREIGN], 'outc': 'ok', 'limbs': _limbs(5), 'src': 'selftest'}
    allc = cases + [bad1, bad2, bad3]
    rej = _judge(ctx, allc)
    nreal = len(cases)
    for i, nm in ((nreal + 1, 'enc digit'), (nreal + 2, 'dec outcome'), (nreal + 3, 'foreign accepted')):
        ctx.selftest(i in rej, 'ShortUuidBig accepted corrupted case (%s)' % nm)
    for i in sorted(rej):
        if i > nreal:
            continue
        c = cases[i - 1]
        if c['kind'] == 'enc':
            before = _partners(c['src'], set(nums))
            ctx.violation({'kind': 'enc', 'n': c['src'], 'before': before},
                          'uuid_to_short_str(UUID(int=%d)) gives digits %s which the spec rejects%s' % (
                              c['src'], c['out'], (' (encoded before it in this process: %s)' % before) if before else ''))
        else:
            ctx.violation({'kind': 'dec', 'str': c['src'], 'fn': c['fn']},
                          '%s(%r) -> %s, rejected by the spec' % (c['fn'], c['src'], c['outc']))
    # injectivity + round trip on the real functions over the sampled numbers (A-spec consequences)
    seen = {}
    for c in cases:
        if c['kind'] == 'enc':
            key = tuple(c['out'])
            if key in seen and seen[key] != c['src']:
                ctx.violation({'kind': 'enc-pair', 'a': seen[key], 'b': c['src']}, 'two UUIDs share one short string')
            seen[key] = c['src']
    for s in (cases[0], cases[len(cases) // 3], cases[-1]):
        ctx.sample({k: (str(v) if k == 'src' else v) for k, v in s.items()})
    ctx.traces = n_small + len(cases)
    ctx.exhaustive = False
    ctx.extra['scaled_instances'] = INSTANCES
    ctx.extra['scaled_cases_exhaustive'] = n_small
    ctx.extra['real_size_cases'] = len(cases)


def replay(ctx, case):
    from ak import short_uuid as su
    _observe_alphabet(su)
    su._ALPHA_IS_STR = isinstance(getattr(su, '_ALPHABET', None), str)
    k = case['kind']
    if k in ('small-enc', 'small-dec'):
        if _calibration(su) is not None:
            return None          # the module no longer has the shape the scaled-down instances assume: no verdict
        base, ln, mx = case['instance']
        alpha = _patched(su, base, ln, mx)
        try:
            if k == 'small-enc':
                n = case['n']
                outc, s = _call(su.uuid_to_short_str, su.uuid.UUID(int=n))
                ds = [alpha.index(ch) for ch in (s or '')]
                val = sum(d * base ** i for i, d in enumerate(ds))
                if outc != 'ok' or len(ds) != ln or val != n:
                    return 'encode(%d) -> %r' % (n, s)
                return None
            digs = case['digits']
            s = ''.join(alpha[d] if d < base else case['foreign'] for d in digs)
            outc, u = _call(getattr(su, case['fn']), s)
            valid = len(digs) == ln and all(d < base for d in digs) and \
                sum(d * base ** i for i, d in enumerate(digs)) < mx
            if valid:
                ok = outc == 'ok' and u.int == sum(d * base ** i for i, d in enumerate(digs))
            else:
                ok = outc == 'ValueError'
            return None if ok else '%s(%r) -> %s' % (case['fn'], s, outc)
        finally:
            _unpatch(su)
    if k == 'enc':
        n = int(case['n'])
        for b in case.get('before', []):
            _call(su.uuid_to_short_str, real_uuid.UUID(int=int(b)))       # what was encoded before it in the run
        outc, s = _call(su.uuid_to_short_str, real_uuid.UUID(int=n))
        if outc != 'ok':
            return 'raises ' + outc
        cases = [{'kind': 'enc', 'limbs': _limbs(n), 'out': _digits(s, su), 'src': n}]
        return 'encoding %r rejected by spec' % s if _judge(ctx, cases) else None
    if k == 'dec':
        s = case['str']
        outc, u = _call(getattr(su, case['fn']), s)
        if outc.startswith('other:'):
            return '%s(%r) raises %s' % (case['fn'], s, outc[6:])
        cases = [{'kind': 'dec', 'str': _digits(s, su), 'outc': outc,
                  'limbs': _limbs(u.int) if outc == 'ok' else _limbs(0)}]
        return '%s(%r) -> %s rejected by spec' % (case['fn'], s, outc) if _judge(ctx, cases) else None
    if k == 'from_str_canonical':
        u = real_uuid.UUID(int=int(case['n']))
        outc, u2 = _call(su.uuid_from_str, str(u))
        return None if (outc == 'ok' and u2 == u) else 'uuid_from_str(canonical) -> %s' % outc
    if k == 'enc-pair':
        a, b = int(case['a']), int(case['b'])
        sa = su.uuid_to_short_str(real_uuid.UUID(int=a))
        sb = su.uuid_to_short_str(real_uuid.UUID(int=b))
        return 'same string' if sa == sb and a != b else None
    return None
