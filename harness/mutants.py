#!/venv/bin/python
"""dev tool (not a registered command): confirm a seeded change and run a check against it.

  mutants.py confirm <dir>             in a scratch worktree: tests pass with the patch, demo fails with it
                                       and passes without it
  mutants.py run <dir> <pid> [tier]    apply <dir>/patch.diff to /repo, run the check, undo
"""
import json
import os
import subprocess
import sys
import tempfile

PY = '/venv/bin/python'


def sh(cmd, **kw):
    return subprocess.run(cmd, shell=True, stdout=subprocess.PIPE, stderr=subprocess.STDOUT, **kw)


def confirm(d):
    wt = tempfile.mkdtemp(prefix='mutwt_')
    os.rmdir(wt)
    r = sh('git -C /repo worktree add -q --detach %s HEAD' % wt)
    out = {}
    try:
        r = sh('cd %s && PYTHONPATH=%s %s %s/demo.py' % (wt, wt, PY, d))
        out['demo_clean_rc'] = r.returncode
        r = sh('git -C %s apply %s/patch.diff' % (wt, d))
        out['apply_rc'] = r.returncode
        if r.returncode:
            out['apply_out'] = r.stdout.decode()[-500:]
        r = sh('cd %s && %s -m pytest -q -p no:cacheprovider 2>&1 | tail -1' % (wt, PY))
        out['tests'] = r.stdout.decode().strip()
        r = sh('cd %s && PYTHONPATH=%s %s %s/demo.py' % (wt, wt, PY, d))
        out['demo_mutant_rc'] = r.returncode
        out['demo_mutant_out'] = r.stdout.decode()[-300:]
    finally:
        sh('git -C /repo worktree remove --force %s' % wt)
    out['confirmed'] = (out.get('apply_rc') == 0 and out['demo_clean_rc'] == 0 and out['demo_mutant_rc'] != 0
                        and '208 passed' in out['tests'])
    return out


def run(d, pid, tier='quick'):
    """Run the check against the seeded change.  The patch is applied to a scratch worktree of /repo's HEAD
    (equivalent to applying it to /repo and undoing it, but leaves /repo untouched so other work can go on);
    evidence and replay files of this run go to a scratch directory."""
    wt = tempfile.mkdtemp(prefix='mutrun_')
    os.rmdir(wt)
    sh('git -C /repo worktree add -q --detach %s HEAD' % wt)
    scratch = tempfile.mkdtemp(prefix='mutev_')
    try:
        r = sh('git -C %s apply %s/patch.diff' % (wt, d))
        if r.returncode:
            return {'error': 'patch does not apply: ' + r.stdout.decode()[-300:]}
        env = dict(os.environ, VERIF_REPO=wt, VERIF_EVIDENCE_DIR=scratch, VERIF_REPLAY_DIR=scratch)
        r = sh('cd /verif && %s -B harness/vcheck.py %s --tier %s' % (PY, pid, tier), env=env)
        txt = r.stdout.decode()
    finally:
        sh('git -C /repo worktree remove --force %s' % wt)
        sh('rm -rf %s' % scratch)
    viol = [l for l in txt.splitlines() if l.startswith('VIOLATION')]
    what = [l for l in txt.splitlines() if l.startswith('  what:')]
    return {'rc': r.returncode, 'violations': len(viol), 'first': (what[0][:300] if what else ''),
            'tail': txt.splitlines()[-1] if txt else ''}


def keep(d, pid, tier='quick'):
    """confirm + run + store under /verif/seeded/<pid>_<x>/"""
    d = os.path.abspath(d)
    c = confirm(d)
    if not c['confirmed']:
        print('NOT CONFIRMED', json.dumps(c, indent=1))
        return
    r = run(d, pid, tier)
    rnd = os.path.basename(os.path.dirname(d))
    name = '%s_%s%s' % (pid, (rnd.split('_')[0].lower() + '_') if '_' in rnd else '', os.path.basename(d))
    dst = os.path.join('/verif/seeded', name)
    os.makedirs(dst, exist_ok=True)
    for f in ('patch.diff', 'demo.py'):
        with open(os.path.join(d, f)) as fi, open(os.path.join(dst, f), 'w') as fo:
            fo.write(fi.read())
    notes = ''
    if os.path.exists(os.path.join(d, 'notes.txt')):
        notes = open(os.path.join(d, 'notes.txt')).read()
    head = sh('git -C /repo log --format=%h -1').stdout.decode().strip()
    meta = {'id': name, 'breaks_property': pid, 'needs_to_manifest': notes.strip(),
            'origin': 'independent sub-agent given only the property text and a scratch worktree',
            'confirmed': {'base_commit': head, 'tests_with_patch': c['tests'],
                          'demo_rc_clean_tree': c['demo_clean_rc'], 'demo_rc_patched_tree': c['demo_mutant_rc'],
                          'how': 'harness/mutants.py confirm (scratch worktree under /tmp, removed afterwards)'},
            'check_result': {'command': 'harness/vcheck.py %s --tier %s with the patch applied to a scratch worktree of /repo HEAD (VERIF_REPO), removed afterwards' % (pid, tier),
                             'exit': r.get('rc'), 'violations': r.get('violations'), 'first_violation': r.get('first'),
                             'detected': r.get('rc') == 1}}
    with open(os.path.join(dst, 'meta.json'), 'w') as f:
        json.dump(meta, f, indent=1)
    print(name, 'detected' if r.get('rc') == 1 else 'MISSED rc=%s' % r.get('rc'), r.get('first', '')[:160])


if __name__ == '__main__':
    if sys.argv[1] == 'keep':
        keep(*sys.argv[2:])
    elif sys.argv[1] == 'confirm':
        print(json.dumps(confirm(os.path.abspath(sys.argv[2])), indent=1))
    else:
        print(json.dumps(run(os.path.abspath(sys.argv[2]), *sys.argv[3:]), indent=1))
