#!/venv/bin/python
"""Regenerates /verif/MANIFEST.json from the table below (kept in one place so the manifest
is always valid; run after adding a driver)."""
import json
import os

VERIF = os.path.dirname(os.path.dirname(os.path.abspath(__file__)))
PY = '/venv/bin/python -B harness/vcheck.py'

# pid -> (engine, technique, level text, level note, design ref)
CHECKS = {}
NOT_APPLICABLE = {}


def check(pid, engine, technique, text, note, ref):
    CHECKS[pid] = (engine, technique, text, note, ref)


ENGINES = {
    'uuid': ('specs/uuid', ['C20'], 'ShortUuid.tla (digit loops + bijection, TLC exhaustive on scaled constants), '
             'LimbsCheck.tla, ShortUuidBig.tla (trace judge with real constants); driver harness/drivers/c20.py'),
}

check('C20', 'uuid',
      'TLA+ spec of the two digit loops checked by TLC (bijection, rejection, termination) on scaled-down constants; '
      'all TLC-emitted cases replayed on the real functions; real-size observations judged by the limb-arithmetic spec',
      'Exhaustive model checking of the algorithm for three scaled-down (Base, L, Max) instances with every number and '
      'every string of length <= L+1 replayed on the real functions (patched module constants), plus TLC trace '
      'validation of boundary-directed and random 128-bit cases (incl. families congruent modulo 2^61-1 / 2^64 / 2^32, encoded in one process) against the same loops on limb numbers. Unit tests '
      'sample a handful of UUIDs; this covers all inputs of the scaled instances and all rejection classes.',
      'Trusted: TLC, the limb arithmetic (checked against Naturals for a small limb base); the alphabet is the one the public interface shows '
      '(first character of the encodings of 0..56).  The scaled-down instances patch module constants and run only while the module has the shape they assume '
      '(checked at run time; otherwise they are skipped with a DRIFT line).  Real-size domain is sampled (2^128 values), not exhaustive.',
      'DESIGN.md section 4, C20')

ENGINES['cli'] = ('specs/cli', ['C19'], 'ArgGraph.tla (declaration-list builder, registration-loop I-spec, Accepts A-spec), '
                  'ArgGraphAsCoded.tla (refuted original loop); driver harness/drivers/c19.py')
check('C19', 'cli',
      'TLA+ spec of the parser graph (TLC: registered dependents = descendants, options held = Accepts) with every '
      'TLC-enumerated declaration list replayed on the real ArgParser and every (command, option) pair parsed',
      'TLC enumerates every declaration list with parents among earlier commands (all DAGs incl. diamonds and internal '
      'option sets) up to 4 (quick) / 5 (thorough) parsers, proves the I-spec registration loop equal to the '
      'ancestor-closure A-spec in every reachable state, and each emitted graph is replayed on the real ArgParser: '
      'construction, three option strings per parser (two sharing a destination), all (command, option) pairs, common '
      'options, default command implicit (first) and given explicitly (last), default-command argvs incl. command / option-set names after options and as option values; every graph with a '
      'multi-parent command also under a naming scheme that makes the constructor walk the parents in another order (fixed hash seed), plus a sample of 6-parser graphs.',
      'Trusted: TLC, argparse. Distinct option strings per parser; default command = first real command with a free '
      'positional.  Known finding F-C19b is reported as KNOWN-FINDING.',
      'DESIGN.md section 4, C19')

ENGINES['llparser'] = ('specs/llparser', ['C01', 'C02', 'C03', 'C04', 'C05'],
                       'LLGrammar.tla (A-spec: nullable/FIRST/FOLLOW, LL(1), left recursion, bounded language, derivation '
                       'trees), LLCases.tla (grammar builder), LLJudge.tla / LLEval.tla (observation judges); '
                       'drivers harness/drivers/ll.py, c01.py, c02.py, c03.py')
_LLNOTE = ('Trusted: TLC; the fixed single-character and keyword/synonym tokenizer configurations; grammar families are '
           'bounded (see evidence coverage.families); adjacent duplicate alternatives excluded (constructor asserts).')
check('C01', 'llparser',
      'TLC-built bounded grammar families replayed on the real LLParser; every returned tree judged by TLC against '
      'the TLA+ definition of a valid derivation (ValidParse) of the user grammar',
      'Every grammar of the bounded families (all ordered alternative lists incl. nullable, ambiguous, common-prefix and '
      'nested-prefix ones, both smart_factorization settings, both dict orders, keyword/synonym/quoted-word/comment tokenizer (keywords also rename tokens into and out of the skipped kinds), explicitly empty skip_tokens, every symbol as explicit start_symbol_name, the text also as a list / iterator of lines, a rest-of-line token followed by blanks) is built by '
      'the TLA+ case builder, parsed by the real parser on all inputs up to the length bound, and every returned tree '
      'is accepted or rejected by TLC against ValidParse: root, each node a user production, yield = tokens.',
      _LLNOTE, 'DESIGN.md section 4, C01')
check('C02', 'llparser',
      'TLC computes LL(1)-as-written and the bounded language of every grammar of the families from the declarative '
      'TLA+ FIRST/FOLLOW theory; the real parser must agree on is_ambiguous() and on acceptance of every input',
      'For every grammar of the bounded families the A-spec (independent FIRST/FOLLOW fixpoints, predict-set '
      'disjointness, bounded language fixpoint) gives ll1 and the sentence set; the real parser is run on all inputs up '
      'to the bound, members and non-members, for both smart settings; is_ambiguous() is re-read after the parses; a '
      'conflict-free grammar must not be refused by the constructor (for either setting).  Extra families: wide '
      'common-prefix groups of up to 6 alternatives (W6), chains with nullable heads (H3) and FOLLOW through a nullable last symbol behind a terminal (F4, 4 symbols), FOLLOW dependencies in cycles (Y4, 4 symbols); a non-sentence must give ParsingError also when the text is a list of lines.',
      _LLNOTE, 'DESIGN.md section 4, C02')
check('C03', 'llparser',
      'TLC decides LeftRecursive(G) (transitive left-corner relation behind nullable prefixes) for every grammar of the '
      'families; the real constructor must raise GrammarIsRecursive exactly then; every parse of an accepted grammar '
      'runs under a deterministic machine-step budget',
      'All grammars of the families over all name assignments (families are closed under renaming, start symbol varies) '
      'and both dict orders, plus the left-recursion focused families R3 (3 symbols, base alternatives and one sequence of '
      'non-terminals) and N3 (a nullable symbol occurring twice in a production): constructor outcome compared with the TLA+ left-recursion relation; all inputs up to the '
      'bound parsed under a step budget counted through the parser debug hooks (no wall-clock verdicts).  '
      'LLListExpand.tla gives the productions a ListProds template generates for all 64 option sets, alone and followed by a second (optional MapProds) template; the real template '
      'must be refused exactly when they are left recursive, and accepted ones must terminate.',
      _LLNOTE, 'DESIGN.md section 4, C03')

ENGINES['color'] = ('specs/color', ['C08', 'C09', 'C14'],
                    'CHText.tla (A-spec lifted str operations + I-spec chunk list, refinement invariants, history '
                    'emission), SGR.tla / SGRCases.tla / SGRJudge.tla (terminal model, configuration builder, trace '
                    'acceptor); drivers harness/drivers/c08.py, c09.py, harness/sgr.py')
check('C08', 'color',
      'TLA+ spec with abstract (sequence of coloured characters) and implementation-shaped (chunk list) state stepped '
      'together; TLC checks refinement over the register state space; TLC-generated operation histories replayed on '
      'real CHText objects with the abstract state compared after every operation',
      'TLC proves flatten(chunks) = abstract text, the representation invariant and canonicity (equal texts <=> equal '
      'chunk lists) for every reachable pair of registers up to the text bound; every history of 2 operations (all '
      'operands, index/slice bounds incl. negative/out-of-range/None, fixed_len, format) and seeded TLC simulations '
      'of 7 operations are replayed on real objects: visible text, colours, len, plain_text, str(), ==.',
      'Trusted: TLC, the small SGR interpreter harness/sgr.py, operand pool as listed in the evidence assumptions.',
      'DESIGN.md section 4, C08')
check('C09', 'color',
      'TLA+ terminal model fed item by item with the real output (trace validation by TLC); configurations and their '
      'requested terminal state come from a TLC-enumerated builder',
      'All foreground and all background specifications (names, -1..256, the 8^3 tuples around the cube, g-1..g25, bools, '
      'floats, lists, other objects, strings that are no colour values such as g5x / red / 12a), constructed twice (the outcome must not depend on values used before), '
      'a representative cross product with all 32 effect combinations, no_color, text and bytes formatter, plus '
      'multi-chunk texts (built at once, and grown step by step with str()/format() between the extensions; some of several hundred sequences): every str() is tokenised independently of the package and accepted or rejected by the TLC '
      'acceptor (each character in exactly the requested state, default state at the end, no stray escape, '
      'strip_colors == plain text, bytes == text); invalid values must raise ValueError.',
      'Trusted: TLC, the tokeniser in harness/sgr.py. Lists/floats as colour values are outside the documented domain.',
      'DESIGN.md section 4, C09')

check('C14', 'color',
      'TLA+ spec with declarative Resolve (A-spec) and the incremental syntax map / resolution loop / palette cache '
      '(I-spec); TLC checks equality after every registration for all splits and orders; every emitted behaviour is '
      'replayed on a real ColorsConfig and palettes',
      'TLC enumerates all description sets over 2 ids nested 2 and 3 levels deep (7 colour parts incl. colour 0 x 3 modifier sets x 4 parents, built-in and '
      'unknown parents) with every split into initial configuration and ordered batches, direct or through palette '
      'classes, with conflicting re-declarations, and checks ImplMatchesSpec, OrderIndependent, CacheCoherent; '
      '3 ids exhaustively in the thorough tier and by simulation in quick.  Each behaviour is replayed (flat and '
      'nested dicts, colour and no_color): get_color, global palette, component palettes re-obtained after every '
      'step, make_report pending marks; and once more through the GLOBAL configuration with synced palettes (state after every step, '
      'and after a new global configuration with the same explicit items is installed); every second palette class takes its defaults from a parent class named in PARENT_PALETTES.',
      'Trusted: TLC, harness/sgr.py. One description per id; reference chains acyclic.',
      'DESIGN.md section 4, C14')

ENGINES['sql'] = ('specs/sql', ['C15'], 'SqlFilter.tla (three-valued evaluation over a fixed table, bind order, condition '
                  'builder), UniqueNames.tla and RecordsMMap.tla (growth items, drift only); driver harness/drivers/c15.py (real sqlite3, recorded cursor.execute)')
check('C15', 'sql',
      'TLA+ spec of SQL three-valued filter semantics and of the bind list; TLC-enumerated condition lists executed '
      'through SqlMethod on a real sqlite3 connection, returned rows / recorded SQL text / bound values compared',
      'Every single condition of the family (comparisons x all pool values incl. NULL, quotes and wildcards; IN/NOT IN '
      'with empty, singleton, NULL-containing and 501-element lists as list/tuple/set; NULL tests; LIKE/NOT LIKE; keyword filters; '
      'OR groups incl. empty and with keyword operands; static conditions; ignored None; conditions as tuples and as constructed SqlFieldValCondition objects) is evaluated by the spec on a 49-row table of all value pairs and executed '
      'in four API spellings x both placeholder styles (? and %s) x plain / underscore-prefixed column names; lists of up to 3 conditions by TLC simulation (quick) and all pairs exhaustively '
      '(thorough).  Checked: rows and order, list/all/one/one_or_none, no value in the SQL text, one placeholder per '
      'bound value in spec order, identical SQL for identical shapes, a later call of the same method without per-call options, falsy scalars through one / one_or_none.',
      'Trusted: TLC, sqlite3 as the SQL engine (columns without affinity; the %s style through a cursor that maps %s to ?), value pool as in the evidence assumptions.',
      'DESIGN.md section 4, C15')

ENGINES['http'] = ('specs/http', ['C16', 'C17'],
                   'ReqId.tla (request-id counter at shared-access atomicity), ReqIdJudge.tla (trace validation), '
                   'HttpConn.tla (connection/caller derivation histories, Expected request as a function of the '
                   'construction chain); drivers harness/drivers/c16.py + harness/sched.py, c17.py')
check('C16', 'http',
      'TLA+ spec of the counter/lock protocol model checked by TLC over all interleavings (safety + liveness); the real '
      'code is run under a deterministic scheduler that enumerates all its schedules at shared-access granularity and '
      'every recorded execution is validated by TLC against the spec',
      'TLC explores every interleaving of 2 threads x 2 requests and 3 threads x 1 (x2 thorough; thorough also runs two 3x2 configurations of the real code up to a schedule limit, and Apalache discharges an inductive invariant of the abstraction ReqIdInd that TLC shows ReqId to refine) incl. caller supplied '
      'ids, requests that fail after their number was handed out, calls refused before an id is generated and a counter that starts at 9999: Unique, GapFree (sent + lost numbers), MutualExclusion, termination.  harness/sched.py stops real threads before every load/store '
      'of a shared mutable attribute of the underlying connection (found in the bytecode of the working tree) and at lock '
      'acquisition and enumerates all schedules by stateless DFS (a removed or narrowed lock just yields more '
      'schedules); each execution trace (loads, stores, lock events, ids handed to the opener) is judged by TLC: ids '
      'distinct, gap free up to the numbers lost to failed requests, caller ids (strings, 0, empty, set by a request adapter) untouched, also when all requests share one caller headers dict, for all five verbs, through plain, basic-auth, client-auth and token-auth connections derived from one base, and with a transport that drops a connection once (verdict) and the event sequence is a behaviour of ReqId (drift).  Bounded lock waits are modelled as attempts that may fail.',
      'Trusted: TLC, CPython 3.12 sys.monitoring, the cooperative lock shim; requests are taken at urllib.request.OpenerDirector.open; the shared state is '
      'what a connection and a connection derived from it have in common (no private name is used). Instructions other than shared accesses '
      'are thread local.  Quick tier caps the schedules per configuration (evidence says when the cap was hit).',
      'DESIGN.md section 4, C16')
check('C17', 'http',
      'TLA+ spec of connection / method-caller derivations with the expected request as a function of the construction '
      'chain (TLC: Stable, AtMostOneAuth, CacheOwn); TLC-generated histories replayed on real objects, a probe request '
      'through every live connection after every action',
      'All histories of 3 actions (NewConn with the connection data as str / tuple / list / dict, Wrap with one adapter or a list, AuthWrap basic/token/client, NewCaller, '
      'CloneCaller none/single/list (one list object shared by all derivations that use it), GetConn per component (two '
      'components whose prefixes differ in the trailing slash), AddAdapter, Request with 5 methods x 11 body kinds) exhaustively and '
      'TLC simulations of 7 actions; after every action every live connection is probed and the captured urllib Request '
      'compared with the spec: address, path segments for an absolute and a relative request path (inner prefixes outermost), url-encoded params, exactly one '
      'Authorization header that decodes (credentials chosen so that + and / occur in the base64 form, login names with a latin-1 character) to the configured credentials, adapter and caller headers, response processors in reverse order (one of them returns a falsy value), body '
      'encoding, caller objects unchanged.',
      'Trusted: TLC; requests are taken at urllib.request.OpenerDirector.open. One auth layer per chain; paths start with "/"; tuples of '
      'adapters not exercised.',
      'DESIGN.md section 4, C17')

ENGINES['xls'] = ('specs/xls', ['C18'], 'XlsRead.tla (sheet builder, end rules, ladder fill-down with origins, TLC: '
                  'OriginsHold, LadderEquivalence); driver harness/drivers/c18.py (mock worksheets)')
check('C18', 'xls',
      'TLA+ spec of the table reader (title binding, ranged column group, end-of-table rules, ladder fill-down with '
      'origins); TLC checks origin/value consistency and ladder equivalence on every sheet; every TLC-built sheet is '
      'read by the real iter_table/read_table and objects, values and origins compared',
      'TLC enumerates 10 column layouts (incl. the ranged group in column A) x leading blank rows x both end rules x ladder/plain x all cell contents over '
      '{blank,a,b,0} for 1 data row (thorough: also 2 rows for the layouts of at most 3 columns), single and composite (2 attribute) keys, with and without trailing content, and simulates sheets of '
      'up to 4 rows; invariants OriginsHold and LadderEquivalence hold on the spec; the real reader must return the '
      'same objects (None for blank keys), attribute values, per-attribute / per-key / range origins, defaults for the '
      'missing optional and the external attribute, the same when two objects per row are read and through the TableReader mixin of a derived class, and the ladder reading must equal the plain reading of the '
      'filled-in sheet produced by the spec.',
      'Trusted: TLC; mock worksheet (cells with value/coordinate/parent.title). Rule-set shape fixed as in the evidence '
      'assumptions; distinct column titles.',
      'DESIGN.md section 4, C18')

ENGINES['ppobj'] = ('specs/ppobj', ['C11', 'C12', 'C13'], 'PPJson.tla (printer acceptor, pushdown machine over lexical items), '
                    'PPJsonCases.tla (shape builder), PPTable.tla (table layout acceptor), PPTableCases.tla (table builder), '
                    'PPTableFmt.tla (format life cycle); drivers harness/drivers/c11.py, c12.py, c13.py')
check('C11', 'ppobj',
      'TLA+ printer acceptor (pushdown machine, one action per lexical item) judges the real PrettyPrinter output for '
      'values whose rendered lengths sweep the layout decisions; value shapes come from a TLC builder',
      'Flat dicts with one-line length 150..260 at several nesting offsets, flat lists with element lengths and counts '
      'around the 200 / 150-per-line decisions (incl. repeated values, lists of numbers and bools only, values next to the strings that read like them, floats with 17 significant digits), special scalars and empty containers, and all '
      'TLC-enumerated shapes of depth<=2 width<=2 scaled by padding, each in JSON and Python mode, whole and line by '
      'line.  The output is lexed by the driver and accepted by TLC only if every element appears exactly once, in '
      'order, dict keys sorted by code point, single commas - hence reads back as the same data (json.loads / '
      'literal_eval agreement is recorded as a cross-check).',
      'Trusted: TLC, the lexer in the driver. Layout thresholds themselves are not part of the property.',
      'DESIGN.md section 4, C11')

check('C12', 'ppobj',
      'TLA+ layout acceptor (one action per printed line) judges real PPTable output for TLC-built abstract tables',
      'All one-column tables (7 width ranges incl. 0 and min=max, break-by, plain and enum columns in every modifier, '
      '0..1 (quick) / 0..2 (thorough) records over 7 cell-length classes, 7 limit settings, header/footer absent, short '
      'and longer than the table) and TLC simulations of tables with up to 3 columns and 7 records (an enum field may be shown '
      'in several columns, enum columns alternate between two enum types with different names for the same raw values; a third of the tables is built from a format object, some get their last record after construction) are materialised '
      'with values of mixed Python types (incl. border characters) and printed; TLC accepts the lines only if the '
      'border fixes widths within [min,max], every row has separators under the + marks, every cell is the desired '
      'text padded or a prefix plus dots, break lines sit exactly where the break-by key changes, limits show exactly '
      'the first n / last m lines and skipped + shown = total, header and footer are clipped to the table, a value is cut only in a column that has its maximal width.',
      'Trusted: TLC; desired cell texts computed by the driver (str(value), documented enum forms). Cell values '
      'without newlines; one-line titles.',
      'DESIGN.md section 4, C12')

check('C13', 'ppobj',
      'TLA+ spec of the format-object life cycle (what str(table.fmt) must describe after any sequence of Construct / '
      'Print / setter uses); TLC-generated life cycles replayed on real tables with the round-trip equalities '
      'evaluated on real renderings after every action',
      'All life cycles of 2 actions over one-column tables (fixed and ranged widths, modifiers, break-by, 6 limit '
      'settings and half-open limits given through the constructor argument) and of two-column tables (ranged, break-by or not, incl. remove_columns) exhaustively and TLC simulations of 6 actions over 2 columns incl. repeated fields, on tables of 2, 4 '
      'and 6 records (so limits skip or do not skip).  After every action: PPTable(records, fmt=str(t.fmt)) and a '
      'copy with copy.fmt = str(t.fmt) must render exactly like t (also after remove_columns, on tables of up to 60 records); "", ";" and ";;" must change nothing; the shape of '
      'str(t.fmt) is compared with the I-spec (drift only).',
      'Trusted: TLC; deep copies to observe a table without printing it; fixed record set and field types.',
      'DESIGN.md section 4, C13')

ENGINES['render'] = ('specs/render', ['C10'], 'RenderPurity.tla (histories over a heap with address re-use, palette / enum cache '
                     'I-spec, Pure / CacheCoherent), RenderJudge.tla (trace acceptor with memo); driver harness/drivers/c10.py, '
                     'harness/c10_objs.py')
check('C10', 'render',
      'TLA+ spec of render histories with heap identity re-use and the cache I-spec (TLC: identity-keyed cache refuted, '
      'weak-keyed cache pure); TLC-generated histories replayed in one interpreter on real objects; every render event '
      'judged by a TLC trace acceptor whose memo is seeded from fresh interpreters',
      'All histories of 4 actions (NewConf with 2 contents / no_color, DropConf + gc, SetGlobal, Render through a slot or '
      'the global configuration, colour / no_color, whole / line by line: each line at once, all lines collected first, interleaved with another rendering of the same object; colours also given as a palette object plus no_color; requested with a temporary configuration that is discarded before the result is consumed) on the table kind and TLC simulations of 12 '
      'actions over 7 object kinds (pretty-printed value, two tables sharing an enum field type (with undeclared values, one longer than all declared ones), record formatter, two tables sharing one general FieldType object, '
      'h-doc help, an object starting with an empty line, the git history report, a table with non-string title items, a table whose limits are changed between two printings, a table built from the format of a printed one without its tallest-titled column).  Each event must equal the fresh-interpreter output for its '
      '(object, configuration content, no_color), line-by-line = whole, stripped colour output = no_color output, no '
      'ESC in no_color output.',
      'Trusted: TLC, harness/sgr.py; objects and configuration contents fixed in harness/c10_objs.py; colours compared '
      'as painted cells.',
      'DESIGN.md section 4, C10')

check('C04', 'llparser',
      'TLA+ reference tokenizer (state machine over the characters of the text) and judge of the positions observed on '
      'the real parser; texts come from a TLC builder',
      'TLC builds all texts of 1 line x 4 chars and 2 lines x 2 chars (thorough: 1x5, 2x3) over an alphabet with '
      'every character class (space, tab, form feed, word, digit, quoted string, multi-line span opener/closer, unmatched) and '
      'simulates texts of 4 lines; each is parsed as str and as list of lines with three grammars (whitespace skipped / '
      'kept as tokens; empty nodes first, in the middle and last; backtracking into an empty production; a parser of another language with a same-named span token is built first).  TLC re-tokenizes the text with the reference '
      'machine and accepts only if every leaf has exactly the reference span and get_orig_text returns exactly that '
      'slice, every inner node spans first..last token, every empty node sits at the following token, and an '
      'unmatched character raises LexicalError naming its line.',
      'Trusted: TLC. Token patterns restricted to the class-run family plus quoted string and one span token; the '
      'value of span tokens and the column of LexicalError are not judged.',
      'DESIGN.md section 4, C04')

check('C05', 'llparser',
      'TLA+ spec of the data language of the templates (Render: token streams under every option set, Denote: the '
      'value the cleaned result must have); TLC-enumerated (options, rendering, expected value) cases parsed by real '
      'parsers built from ListProds / MapProds / ProdSequence',
      'All data of depth 1 and width 2 (thorough: width 3, and depth 2) over atoms, empty items, lists and maps with '
      'repeated keys x 40 option sets (delimiter or none, allow_final_delimiter default/yes/no, nullable items, map '
      'final delimiter) x 8 grammar shapes (value, optional containers after a word, bracket-less top list (with nullable items: `a,` = [a, None]), bracket-less top map (final delimiter judged), rows, optional '
      'list after every atom, declarations list) x with / without / forbidden final delimiter; each rendered 4 times '
      'with seeded whitespace, newlines and comments between tokens and with 4 orders of the productions dict.  The '
      'cleaned value must equal Denote (wrapper nodes the generic cleanup keeps are ignored), forbidden final '
      'delimiters must raise ParsingError, sequences of terminals must come back in order.  The same run model checks '
      'TreeNav.tla (explicit-stack iterator = recursive orders) and replays its trees on real TElement objects (drift only).',
      'Trusted: TLC. Lists in brackets whose last item is empty are not generated (inherent ambiguity with the final delimiter). '
      'Known finding F-C05 (templates nested in a sequence) is reported as KNOWN-FINDING.',
      'DESIGN.md section 4, C05')

ENGINES['ghist'] = ('specs/ghist', ['C06', 'C07'], 'GHistComp.tla (component + parent histories with pins, IncludedAt), RepoOrder.tla (dependency graphs), GHist.tla (history model, report relation BranchOK), GHistCases.tla (history builder, '
                    'Satisfiable), GHistJudge.tla (judge of real reports); driver harness/drivers/c06.py, harness/ghmock.py')
check('C06', 'ghist',
      'TLA+ relation between a git history and an acceptable report (per branch), checked satisfiable by TLC on every '
      'history; TLC-built histories materialised as mock repositories, the real report judged branch by branch by TLC',
      'TLC enumerates every history of up to 3 (quick) / 4 (thorough) commits with 0-2 parents (merges, several roots), '
      'matching flags (the search text in the first line or only in a trailer of the message), up to 2 build tags and all placements of up to 3 branch heads (incl. heads coinciding with or '
      'inside another branch), every history over the fixed parents relation 1<-2, 1<-3, {2,3}<-4, 3<-5, and simulates histories of 8 commits / 4 tags / 4 branches; ReposCollection.'
      'make_reports_data runs on a mock repository and each branch report is accepted only if builds are the right '
      'commits, every reachable matching commit is listed once under an ancestry-minimal build of that branch, never '
      'under "not merged", "not merged" lists exactly the unreachable matching commits of lower branches, nothing '
      'non-matching is listed, branches come in numeric-aware order; the printed report is parsed back and must list '
      'the same builds and commits as the data.',
      'Trusted: TLC, the mock repository. Known finding F-C06 (head of a branch inside a lower-sorted branch) is '
      'reported as KNOWN-FINDING only when the report shows exactly the known pattern.',
      'DESIGN.md section 4, C06')

check('C07', 'ghist',
      'TLA+ spec of a component history, a parent history with monotone component pins and the set of parent builds '
      'at which each report-related component build must be recorded (TLC: IncludedSomewhere, NeverTwiceOnAPath); '
      'TLC-built repository pairs replayed on mock repositories; all dependency graphs for the repository order',
      'All pairs of a component (2 commits, 0-2 build tags per commit; versions from the tag text or from a VERSION file that changes with every commit; DAG components with a diamond family) and a parent history of 2 (quick) / 3 '
      '(thorough) commits with merges, tags, 1-2 branches and every non-decreasing pin assignment, plus TLC '
      'simulations up to 4 component / 7 parent commits and 3 branches: RBuild.included_at of every report-related '
      'component build (component versions from tag text (release lines 1.0 and 0.9), from a VERSION file, or builds detected as bumps of the saved number; parents that pin a second component; parent commits tagged for two release lines; pins that move to a parallel build of a diamond component) must be exactly the ancestry-minimal builds (or unbuilt head) of each parent branch whose pin '
      'contains it, each such parent build must be reported, supply order of the repositories varied.  All dependency '
      'graphs on 2-3 (thorough: 4) repositories x all supply orders: components first, cycles rejected with ValueError.',
      'Trusted: TLC, the mock repositories. Linear component; parent heads not inside a lower-sorted branch (finding '
      'F-C06 of C06); commit times inside the cut-off windows.',
      'DESIGN.md section 4, C07')

ALL = ['C%02d' % i for i in range(1, 21)]


def main():
    checks = []
    for pid in ALL:
        if pid not in CHECKS:
            continue
        engine, technique, text, note, ref = CHECKS[pid]
        checks.append({
            'property_id': pid,
            'quick_cmd': '%s %s --tier quick' % (PY, pid),
            'thorough_cmd': '%s %s --tier thorough' % (PY, pid),
            'evidence_file': 'evidence/%s.json' % pid,
            'replay_cmd_template': '%s %s --replay {path}' % (PY, pid),
            'engine': engine,
            'level_claimed': {'category': 'model_checking', 'text': text, 'design_ref': ref},
            'level_note': note,
            'technique': technique,
        })
    na = []
    for pid in ALL:
        if pid not in CHECKS:
            na.append({'property_id': pid,
                       'reason': NOT_APPLICABLE.get(pid, 'check not built yet in this round (planned, see DESIGN.md section 4); '
                                                    'no claim is made until its spec and binding exist')})
    man = {
        'version': 1,
        'setup_cmd': '/venv/bin/python -B harness/setup.py',
        'hooks': {
            'guard': 'AK_PY_VERIF',
            'enable': 'checks import ak from /repo\'s working tree with AK_PY_VERIF=1 in the environment; '
                      'no hook is currently needed (observation points are public API / overridable methods)',
            'baseline_off_cmd': 'cd /repo && env -u AK_PY_VERIF /venv/bin/python -m pytest -q -p no:cacheprovider',
            'source_commits': [],
            'add_only': True,
        },
        'engines': [{'name': k, 'path': v[0], 'serves_properties': v[1], 'kind_free_text': v[2]}
                    for k, v in ENGINES.items()],
        'checks': checks,
        'not_applicable': na,
        'notes': 'All checks: explicit TLA+ specs under specs/, checked with TLC, bound to the code by replaying '
                 'TLC-generated cases into the real code and/or judging observations recorded from the real code '
                 'with TLC.  Exit 2 = machinery failure.  known_findings.json lists recorded and fixed defects.',
    }
    with open(os.path.join(VERIF, 'MANIFEST.json'), 'w') as f:
        json.dump(man, f, indent=1)
        f.write('\n')


if __name__ == '__main__':
    main()
