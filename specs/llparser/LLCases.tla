------------------------------- MODULE LLCases -------------------------------
(***************************************************************************)
(* Case builder for the parser family: a grammar is grown alternative by   *)
(* alternative (AddAlt), non-terminal by non-terminal (NextNT), then a     *)
(* start symbol is chosen (Finish).  Every complete grammar is reported    *)
(* together with what the A-spec (LLGrammar) says about it:                *)
(*   leftrec  - GrammarIsRecursive must be raised                          *)
(*   ll1      - the grammar is LL(1) as written                            *)
(*   lang     - all sentences of length <= K                               *)
(* Alternatives are ordered; an alternative equal to its predecessor is    *)
(* not generated (the constructor rejects adjacent duplicates with an      *)
(* assertion, so such a grammar is not "accepted by the constructor").     *)
(***************************************************************************)
EXTENDS Naturals, Sequences, FiniteSets, TLC, Json, LLGrammar

CONSTANTS NumNT,      \* number of non-terminals (names A, B, C, D in this order)
          TERMS,      \* set of terminal names
          MaxAlts,    \* alternatives per non-terminal (1..MaxAlts)
          MaxLen,     \* symbols per alternative (0..MaxLen)
          K,          \* sentences up to this length are reported
          PrefixLen,  \* every alternative starts with this many copies of terminal "a" (prefix-heavy
                      \* families for nested common prefixes); MaxLen bounds the rest
          Pool,       \* "all": every alternative up to MaxLen; "nts": the empty alternative, single terminals and
                      \* sequences of 2..MaxLen NON-TERMINALS, at most one such sequence in the whole grammar
                      \* (left-recursion focused family: what is nullable, what stands behind it, under every
                      \* assignment of names to the roles)
          Emit

NTS     == SubSeq(<<"A", "B", "C", "D">>, 1, NumNT)
NtSet   == { NTS[i] : i \in 1 .. Len(NTS) }
Symbols == NtSet \cup TERMS
Pfx     == [i \in 1 .. PrefixLen |-> "a"]
(* "chain": symbol number i uses only later symbols: empty, <<t>>, <<N>>, <<N, t>> (FIRST / FOLLOW through nullable *)
(* heads of a chain of productions); the start symbol is the first one                                          *)
NtIndex(A) == CHOOSE i \in 1 .. Len(NTS) : NTS[i] = A
Later(i) == { NTS[j] : j \in (i + 1) .. Len(NTS) }
ChainPool(i) == {<<>>} \cup { <<t>> : t \in TERMS } \cup { <<N>> : N \in Later(i) } \cup { <<N, t>> : N \in Later(i), t \in TERMS }
(* "rep": as "chain", plus a later symbol repeated around a terminal (N N t, N t N), two different later symbols, and *)
(* a later symbol followed by the symbol itself (right recursion behind it)                                         *)
RepPool(i) == ChainPool(i) \cup { <<N, NTS[i]>> : N \in Later(i) }
              \cup { <<N, N, t>> : N \in Later(i), t \in TERMS } \cup { <<N, t, N>> : N \in Later(i), t \in TERMS }
              \cup { <<N, M>> : N \in Later(i), M \in Later(i) }
(* "follow": four symbols; the start symbol is <<B, t>>, B has ONE alternative, every symbol uses later symbols only, *)
(* also as <<N, t, M>> and <<t, M>> (a nullable LAST symbol behind a terminal: what may follow the symbols before it)    *)
FollowPool(i) == IF i = 1 THEN { <<NTS[2], t>> : t \in TERMS }
                 ELSE {<<>>} \cup { <<t>> : t \in TERMS } \cup { <<N, t>> : N \in Later(i), t \in TERMS }
                      \cup { <<t, M>> : t \in TERMS, M \in Later(i) }
                      \cup { <<N, t, M>> : N \in Later(i), t \in TERMS, M \in Later(i) }
(* "cycle": A -> c B c; the other symbols are <<>>, <<t, N>> or <<t, N>> | <<>> with N ANY of them (tail recursion in *)
(* cycles: what may follow a symbol depends on what may follow the others, in cycles of length 2 and 3)              *)
CyclePool(i) == IF i = 1 THEN { <<"c", NTS[2], "c">> }
                ELSE {<<>>} \cup { <<t, NTS[j]>> : t \in {"a", "b"}, j \in 2 .. Len(NTS) }
AltPool == IF Pool = "cycle" THEN UNION { CyclePool(i) : i \in 1 .. Len(NTS) }
           ELSE IF Pool = "follow" THEN UNION { FollowPool(i) : i \in 1 .. Len(NTS) }
           ELSE IF Pool = "rep" THEN UNION { RepPool(i) : i \in 1 .. Len(NTS) }
           ELSE IF Pool = "terms" THEN { Pfx \o t : t \in UNION { [1 .. n -> TERMS] : n \in 0 .. MaxLen } }     \* terminals only
           ELSE IF Pool = "chain" THEN UNION { ChainPool(i) : i \in 1 .. Len(NTS) }
           ELSE IF Pool = "nts"
             THEN {<<>>} \cup { <<t>> : t \in TERMS } \cup UNION { [1 .. n -> NtSet] : n \in 2 .. MaxLen }
             ELSE { Pfx \o t : t \in UNION { [1 .. n -> Symbols] : n \in 0 .. MaxLen } }

VARIABLES prods,   \* sequence (by NTS index) of alternative sequences
          cur,     \* index of the non-terminal being filled
          start,   \* chosen start symbol or "" while building
          phase    \* "build" | "done"
vars == <<prods, cur, start, phase>>

Init == /\ prods = [i \in 1 .. Len(NTS) |-> <<>>] /\ cur = 1 /\ start = "" /\ phase = "build"

AddAlt(alt) ==
  /\ phase = "build" /\ Len(prods[cur]) < MaxAlts
  /\ (prods[cur] # <<>> => prods[cur][Len(prods[cur])] # alt)
  /\ (Pool = "chain" => alt \in ChainPool(cur))
  /\ (Pool = "rep" => alt \in RepPool(cur))
  /\ (Pool = "follow" => alt \in FollowPool(cur) /\ (cur <= 2 => prods[cur] = <<>>))
  /\ (Pool = "cycle" => alt \in CyclePool(cur) /\ (prods[cur] # <<>> => cur > 1 /\ alt = <<>>))
  /\ (Pool = "nts" /\ Len(alt) > 1 =>               \* one sequence of non-terminals in the whole grammar
         \A j \in 1 .. Len(NTS) : \A i \in 1 .. Len(prods[j]) : Len(prods[j][i]) <= 1)
  /\ prods' = [prods EXCEPT ![cur] = Append(@, alt)]
  /\ UNCHANGED <<cur, start, phase>>

NextNT == /\ phase = "build" /\ cur < Len(NTS) /\ prods[cur] # <<>>
          /\ cur' = cur + 1 /\ UNCHANGED <<prods, start, phase>>

Grammar(s) == [nts |-> NtSet, terms |-> TERMS, start |-> s,
               prods |-> [A \in NtSet |-> prods[CHOOSE i \in 1 .. Len(NTS) : NTS[i] = A]]]

Finish(s) ==
  /\ phase = "build" /\ cur = Len(NTS) /\ prods[cur] # <<>>
  /\ (Pool \in {"chain", "rep", "follow", "cycle"} => s = NTS[1])
  /\ start' = s /\ phase' = "done"
  /\ LET G == Grammar(s) IN
       Emit => PrintT(ToJson([start   |-> s,
                              prods   |-> G.prods,
                              leftrec |-> LeftRecursive(G),
                              lrsyms  |-> LeftRecursiveSyms(G),
                              ll1     |-> IF LeftRecursive(G) THEN FALSE ELSE IsLL1(G),
                              lang    |-> IF LeftRecursive(G) THEN {} ELSE Lang(G, K)[s]]))
  /\ UNCHANGED <<prods, cur>>

Next == \/ \E alt \in AltPool : AddAlt(alt)
        \/ NextNT
        \/ \E s \in NtSet : Finish(s)
Spec == Init /\ [][Next]_vars

(* sanity theorems about the A-spec itself, checked on every complete grammar *)
G0 == Grammar(start)
NullableIffEmptySentence ==
  phase = "done" /\ ~LeftRecursive(G0) =>
     \A A \in NtSet : (A \in Nullable(G0)) <=> (<<>> \in Lang(G0, 0)[A])
FirstMatchesLanguage ==
  phase = "done" /\ ~LeftRecursive(G0) =>
     \A A \in NtSet : { s[1] : s \in { w \in Lang(G0, K)[A] : w # <<>> } } \subseteq First(G0)[A]
=============================================================================
