---------------------------- MODULE LLListExpand ----------------------------
(***************************************************************************)
(* Expansion of a ListProds template into plain productions (I-spec of     *)
(* ListProds.complete_init / gen_productions of ak/llparser.py) and what    *)
(* the A-spec LLGrammar says about the expanded grammar - used by the C03   *)
(* check: left recursion may hide inside the generated productions.        *)
(*                                                                         *)
(*   LIST -> open close | open ITEM TAIL close | <empty if optional>        *)
(*   TAIL -> DELIM ITEM TAIL | DELIM (if a final delimiter is allowed) | <empty>      *)
(* without brackets the two LIST productions swap places; without brackets *)
(* and without delimiter TAIL is LIST itself.                               *)
(* Option sets: brackets or none; delimiter none / the terminal "," / a     *)
(* non-terminal that is nullable (OC -> , | <empty>) or not (CM -> ,);      *)
(* item symbol nullable (IT -> w | <empty>) or not (IT -> w);               *)
(* allow_final_delimiter; optional.  Context: E -> w LIST  or  E -> w LIST OMAP. *)
(***************************************************************************)
EXTENDS Naturals, Sequences, FiniteSets, TLC, Json, LLGrammar

Opts == { [br |-> br, delim |-> d, itemnull |-> n, afd |-> a, optional |-> o, second |-> s] :
             br \in BOOLEAN, d \in {"none", "term", "ntnull", "nt"}, n \in BOOLEAN, a \in BOOLEAN, o \in BOOLEAN, s \in BOOLEAN }
(* second: the grammar holds a second template, an optional map behind the list (E -> w LIST OMAP):                 *)
(*   OMAP -> { } | { OMAP__KV_PAIR OMAP__ELEMENTS } | <empty>;  OMAP__ELEMENTS -> , OMAP__KV_PAIR OMAP__ELEMENTS | , | <empty> *)
(*   OMAP__KV_PAIR -> w : w        (MapProds.complete_init / gen_productions)                                        *)
MapExpanded == [OMAP |-> << <<"{", "}">>, <<"{", "OMAP__KV_PAIR", "OMAP__ELEMENTS", "}">>, <<>> >>,
                OMAP__ELEMENTS |-> << <<",", "OMAP__KV_PAIR", "OMAP__ELEMENTS">>, <<",">>, <<>> >>,
                OMAP__KV_PAIR |-> << <<"w", ":", "w">> >>]
DelimSym(o) == CASE o.delim = "term" -> <<",">> [] o.delim = "ntnull" -> <<"OC">> [] o.delim = "nt" -> <<"CM">> [] OTHER -> <<>>
Open(o) == IF o.br THEN <<"[">> ELSE <<>>
Close(o) == IF o.br THEN <<"]">> ELSE <<>>
TailSym(o) == IF o.br \/ o.delim # "none" THEN "LIST__TAIL" ELSE "LIST"
ListProdsOf(o) ==
  LET empty == Open(o) \o Close(o)
      full == Open(o) \o <<"IT", TailSym(o)>> \o Close(o)
      two == IF o.br THEN <<empty, full>> ELSE <<full, empty>> IN
  IF o.optional THEN Append(two, <<>>) ELSE two
TailProdsOf(o) ==
  LET rec == DelimSym(o) \o <<"IT", "LIST__TAIL">> IN
  IF o.afd THEN <<rec, DelimSym(o), <<>>>> ELSE <<rec, <<>>>>
(* the constructor refuses two adjacent equal productions; such option sets are not used *)
NoAdjacentDup(ps) == \A i \in 1 .. (Len(ps) - 1) : ps[i] # ps[i + 1]
Expanded(o) ==
  LET base == [E |-> << IF o.second THEN <<"w", "LIST", "OMAP">> ELSE <<"w", "LIST">> >>, LIST |-> ListProdsOf(o),
               IT |-> IF o.itemnull THEN << <<"w">>, <<>> >> ELSE << <<"w">> >>]
      withTail == IF TailSym(o) = "LIST" THEN base ELSE base @@ [LIST__TAIL |-> TailProdsOf(o)]
      withDelim == CASE o.delim = "ntnull" -> withTail @@ [OC |-> << <<",">>, <<>> >>]
                     [] o.delim = "nt" -> withTail @@ [CM |-> << <<",">> >>]
                     [] OTHER -> withTail IN
  IF o.second THEN withDelim @@ MapExpanded ELSE withDelim
Gram(o) == [nts |-> DOMAIN Expanded(o), terms |-> {"w", ",", "[", "]", "{", "}", ":"}, start |-> "E", prods |-> Expanded(o)]

VARIABLES opt, done
vars == <<opt, done>>
Init == opt \in Opts /\ done = FALSE
Report == /\ ~done /\ done' = TRUE /\ UNCHANGED opt
          /\ PrintT(ToJson([opt |-> opt, prods |-> Expanded(opt),
                            dup |-> ~(NoAdjacentDup(ListProdsOf(opt)) /\ NoAdjacentDup(TailProdsOf(opt))),
                            leftrec |-> LeftRecursive(Gram(opt)), lrsyms |-> LeftRecursiveSyms(Gram(opt))]))
Next == Report
Spec == Init /\ [][Next]_vars
(* sanity: with a delimiter that always consumes a token the generated productions are never left recursive *)
TerminalDelimiterIsSafe == (opt.delim \in {"term", "nt"} /\ opt.br) => ~LeftRecursive(Gram(opt))
=============================================================================
