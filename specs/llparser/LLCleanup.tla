------------------------------ MODULE LLCleanup ------------------------------
(***************************************************************************)
(* I-spec of the generic tree cleanup of ak/llparser.py (StdCleanuper)     *)
(* for grammars without templates - growth item beyond the listed          *)
(* properties.  Squashable symbols: every production has at most one       *)
(* symbol; choice symbols: more than one one-symbol production; kept       *)
(* symbols: the start symbol and keep_symbols.  Cleanup(t, fc, fch)        *)
(* returns the cleaned node and the "do not squash me" flag exactly as     *)
(* _cleanup does.  Judge: one case per (real parser, input): the raw tree  *)
(* (do_cleanup=False) is cleaned by the spec and compared with the tree    *)
(* the real cleanup produced.                                              *)
(*  node = [n, leaf |-> TRUE, none |-> BOOLEAN, v] | [n, leaf |-> FALSE, k |-> <<nodes>>]  *)
(***************************************************************************)
EXTENDS Naturals, Sequences, FiniteSets, TLC, Json, IOUtils
Cases == ndJsonDeserialize(IOEnv.CASES)
ToSet(s) == { s[i] : i \in 1 .. Len(s) }

Squashable(pm, helpers) == { A \in DOMAIN pm \ helpers : \A i \in 1 .. Len(pm[A]) : Len(pm[A][i]) <= 1 }
Choice(pm, helpers) == { A \in Squashable(pm, helpers) : Cardinality({ i \in 1 .. Len(pm[A]) : Len(pm[A][i]) = 1 }) > 1 }

RECURSIVE Clean(_, _, _, _, _, _)
(* returns [t |-> cleaned node, ns |-> no-squash flag] *)
Clean(t, fc, fch, sq, ch, keep) ==
  IF t.leaf THEN [t |-> t, ns |-> fch]
  ELSE LET kids == [i \in 1 .. Len(t.k) |-> Clean(t.k[i], FALSE, t.n \in ch, sq, ch, keep)]
           vals == [i \in 1 .. Len(kids) |-> kids[i].t] IN
       IF vals = <<>> THEN [t |-> [n |-> t.n, leaf |-> TRUE, none |-> TRUE, v |-> ""], ns |-> fch]
       ELSE IF t.n \notin sq THEN [t |-> [n |-> t.n, leaf |-> FALSE, k |-> vals], ns |-> fch]
       ELSE LET child == vals[1]
                cns == kids[1].ns
                keepParent == fch \/ t.n \in keep
                keepChild == cns \/ child.n \in keep IN
            IF keepParent /\ keepChild THEN [t |-> [n |-> t.n, leaf |-> FALSE, k |-> vals], ns |-> TRUE]
            ELSE IF keepChild \/ fc
                   THEN [t |-> child, ns |-> cns]                                       \* the parent disappears
                   ELSE [t |-> (IF child.leaf THEN [n |-> t.n, leaf |-> TRUE, none |-> child.none, v |-> child.v]
                                ELSE [n |-> t.n, leaf |-> FALSE, k |-> child.k]), ns |-> keepParent]   \* the child disappears

VARIABLES tid, done
vars == <<tid, done>>
Init == tid \in 1 .. Len(Cases) /\ done = FALSE
Judge == /\ ~done /\ done' = TRUE /\ UNCHANGED tid
         /\ LET c == Cases[tid]
                helpers == ToSet(c.suffix)
                sq == Squashable(c.pm, helpers)
                ch == Choice(c.pm, helpers)
                keep == ToSet(c.keep)
                r == Clean(c.raw, FALSE, FALSE, sq, ch, keep) IN
            PrintT(<<IF r.t = c.cleaned THEN "CLEAN-OK" ELSE "CLEAN-DIFF", tid>>)
Next == Judge
Spec == Init /\ [][Next]_vars
=============================================================================
