------------------------------- MODULE LLTexts -------------------------------
(* Builder of texts: AddChar / NewLine / Finish over a small alphabet that contains every character *)
(* class of the reference tokenizer (space, word, digit, span opener, span closer, unmatched).      *)
EXTENDS Naturals, Sequences, TLC, Json
CONSTANTS MaxLines, MaxLen, Emit
Alphabet == {32, 97, 49, 60, 62, 63, 34, 12, 9}
VARIABLES lines, phase
vars == <<lines, phase>>
Init == lines = << <<>> >> /\ phase = "build"
AddChar == /\ phase = "build" /\ Len(lines[Len(lines)]) < MaxLen
           /\ \E c \in Alphabet : lines' = [lines EXCEPT ![Len(lines)] = Append(@, c)]
           /\ UNCHANGED phase
NewLine == /\ phase = "build" /\ Len(lines) < MaxLines /\ lines' = Append(lines, <<>>) /\ UNCHANGED phase
Finish == /\ phase = "build" /\ phase' = "done" /\ UNCHANGED lines
          /\ Emit => PrintT(ToJson(lines))
Next == AddChar \/ NewLine \/ Finish
Spec == Init /\ [][Next]_vars
Bounded == Len(lines) <= MaxLines /\ \A i \in 1 .. Len(lines) : Len(lines[i]) <= MaxLen
=============================================================================
