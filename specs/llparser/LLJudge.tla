------------------------------- MODULE LLJudge -------------------------------
(***************************************************************************)
(* Observation judge for the parser (code -> spec).  Every case recorded   *)
(* from the real LLParser is one initial state:                            *)
(*   [g |-> [start, nts, terms, prods], toks |-> <<[n, v]>>,                *)
(*    res |-> "tree" | "ParsingError" , tree |-> node]                      *)
(* C01: a returned tree must satisfy ValidParse for the USER's grammar.    *)
(* C02 (when the case carries exact |-> TRUE, i.e. the grammar is LL(1) as *)
(* written or its table is conflict free): tree <=> sentence.              *)
(***************************************************************************)
EXTENDS Naturals, Sequences, FiniteSets, TLC, Json, IOUtils, LLGrammar

Cases == ndJsonDeserialize(IOEnv.CASES)

VARIABLES tid, verdict
vars == <<tid, verdict>>

Gram(c) == [nts |-> { x : x \in DOMAIN c.g.prods }, terms |-> { c.g.terms[i] : i \in 1 .. Len(c.g.terms) },
            start |-> c.g.start, prods |-> c.g.prods]
TokNames(c) == [i \in 1 .. Len(c.toks) |-> c.toks[i].n]

TreeOK(c)  == c.res = "tree" => ValidParse(Gram(c), c.toks, c.tree)
ExactOK(c) == c.exact => ((c.res = "tree") <=> InLanguage(Gram(c), TokNames(c)))

Init == tid \in 1 .. Len(Cases) /\ verdict = "none"
Judge == /\ verdict = "none"
         /\ LET c == Cases[tid] IN
              verdict' = IF ~TreeOK(c) THEN "REJECT-TREE"
                         ELSE IF ~ExactOK(c) THEN "REJECT-EXACT" ELSE "ACCEPT"
         /\ PrintT(<<verdict', tid>>)
         /\ UNCHANGED tid
Next == Judge
Spec == Init /\ [][Next]_vars
=============================================================================
