------------------------------- MODULE TreeNav -------------------------------
(***************************************************************************)
(* Navigation over cleaned parse trees (ak/llparser.py, TElement.get,      *)
(* get_path_elem, get_path_val, find_all / iter_all / _iter_children) -    *)
(* growth item beyond the listed properties.                               *)
(*                                                                         *)
(* A cleaned tree element has a name and a value which is a plain value    *)
(* or None (leaf), a list of items (list templates, ordinary nodes) or a    *)
(* dict key -> item (map templates).  An item is an element or a plain      *)
(* value.                                                                  *)
(*   elem  = [kind |-> "leaf", n, none |-> BOOLEAN]                         *)
(*         | [kind |-> "list", n, k |-> <<items>>]                          *)
(*         | [kind |-> "dict", n, k |-> <<items>>, keys |-> <<strings>>]    *)
(*   plain = [kind |-> "plain"]                                             *)
(* Elements are identified by their path: <<1>> is the root, p \o <<i>>    *)
(* the i-th entry of the children list of p, where the children list of a  *)
(* dict is k1, v1, k2, v2, ... (as _iter_children builds it).              *)
(*                                                                         *)
(* A-spec : Pre / Post orders as recursive functions, Get, PathElem.       *)
(* I-spec : the explicit-stack generator _iter_children, one action per    *)
(*          loop iteration; TLC checks on every tree of the bounded family *)
(*          that it terminates with exactly the A-spec order and that the  *)
(*          stack never exceeds the tree height + 2.                       *)
(* Builder: prints every tree with the expected observations (spec->code). *)
(***************************************************************************)
EXTENDS Naturals, Sequences, FiniteSets, FiniteSetsExt, TLC, Json, SequencesExt

CONSTANTS Names,      \* element names
          Keys,       \* dict keys
          WTop, WIn   \* max number of entries of the root / of inner containers

Plain == [kind |-> "plain"]
Leaves == { [kind |-> "leaf", n |-> n, none |-> b] : n \in Names, b \in BOOLEAN }
SeqsUpTo(S, w) == UNION { [1 .. m -> S] : m \in 0 .. w }
DistinctKeySeqs(m) == { s \in [1 .. m -> Keys] : \A i, j \in 1 .. m : i # j => s[i] # s[j] }
Containers(Items, w) ==
    { [kind |-> "list", n |-> n, k |-> s] : n \in Names, s \in SeqsUpTo(Items, w) }
    \cup UNION { { [kind |-> "dict", n |-> n, k |-> s, keys |-> ks] :
                      n \in Names, s \in [1 .. m -> Items], ks \in DistinctKeySeqs(m) } : m \in 0 .. w }
T0 == Leaves
T1 == T0 \cup Containers(T0 \cup {Plain}, WIn)
T2 == Containers(T1 \cup {Plain}, WTop)
Trees == T2

IsElem(x) == x.kind # "plain"
(* the list _iter_children iterates for an element *)
Children(t) == IF t.kind = "list" THEN t.k
               ELSE IF t.kind = "dict" THEN [i \in 1 .. 2 * Len(t.k) |-> IF i % 2 = 1 THEN Plain ELSE t.k[i \div 2]]
               ELSE <<>>

RECURSIVE Pre(_, _), Post(_, _), Height(_)
Pre(t, p) == <<p>> \o FlattenSeq([i \in 1 .. Len(Children(t)) |->
                 IF IsElem(Children(t)[i]) THEN Pre(Children(t)[i], Append(p, i)) ELSE <<>>])
Post(t, p) == FlattenSeq([i \in 1 .. Len(Children(t)) |->
                 IF IsElem(Children(t)[i]) THEN Post(Children(t)[i], Append(p, i)) ELSE <<>>]) \o <<p>>
Height(t) == IF ~IsElem(t) \/ Children(t) = <<>> THEN 1
             ELSE 1 + Max({ Height(Children(t)[i]) : i \in 1 .. Len(Children(t)) })

RECURSIVE At(_, _)
At(t, p) == IF Len(p) = 1 THEN t ELSE At(Children(t)[p[2]], <<1>> \o SubSeq(p, 3, Len(p)))

(* find_all(name, exclude_root, bottom_first) *)
FindAll(t, nameset, excl, bottom) ==
    SelectSeq(IF bottom THEN Post(t, <<1>>) ELSE Pre(t, <<1>>),
              LAMBDA p : At(t, p).n \in nameset /\ (excl => p # <<1>>))

(* t.get(name): <<"none">> (default), <<"elem", i>> (i-th entry of k), <<"plain", i>>, <<"error">> *)
Get(t, name) ==
    IF t.kind = "leaf" THEN <<"none">>       \* value None -> default; a plain string value is not iterated here (see driver)
    ELSE IF t.kind = "dict"
      THEN LET hits == { i \in 1 .. Len(t.keys) : t.keys[i] = name } IN
           IF hits = {} THEN <<"none">>
           ELSE LET i == CHOOSE i \in hits : TRUE IN <<IF IsElem(t.k[i]) THEN "elem" ELSE "plain", i>>
      ELSE LET hits == { i \in 1 .. Len(t.k) : IsElem(t.k[i]) /\ t.k[i].n = name } IN
           IF hits = {} THEN <<"none">>
           ELSE IF Cardinality(hits) = 1 THEN <<"elem", CHOOSE i \in hits : TRUE>>
           ELSE <<"error">>

(* get_path_elem(<<n1, n2>>) as coded: a missing last step gives None (not the default), a step from something
   that is not an element gives the default.  Result: "none", "default", "error", or the entry indexes. *)
Path2(t, n1, n2) ==
    LET g1 == Get(t, n1) IN
    IF g1[1] = "error" THEN <<"error">>
    ELSE IF g1[1] # "elem" THEN <<"default">>
    ELSE LET c == t.k[g1[2]]
             g2 == Get(c, n2) IN
         IF g2[1] = "error" THEN <<"error">>
         ELSE IF g2[1] = "none" THEN <<"none">>
         ELSE <<g2[1], g1[2], g2[2]>>

(* ------------------------------ I-spec: _iter_children ------------------------------ *)
VARIABLES tree, bottom, stack, pos, out, done
vars == <<tree, bottom, stack, pos, out, done>>
(* stack[i] = [p |-> path of the element whose children these are, items |-> the list] *)

Init == /\ tree \in Trees /\ bottom \in BOOLEAN
        /\ stack = << [p |-> <<>>, items |-> <<tree>>] >> /\ pos = <<1>>
        /\ out = <<>> /\ done = FALSE

Top == stack[Len(stack)]
CurPos == pos[Len(pos)]
Pop ==   /\ stack # <<>> /\ CurPos > Len(Top.items)
         /\ LET s2 == SubSeq(stack, 1, Len(stack) - 1)
                p2 == SubSeq(pos, 1, Len(pos) - 1) IN
            IF s2 = <<>> THEN /\ stack' = s2 /\ pos' = p2 /\ UNCHANGED out
            ELSE LET fr == s2[Len(s2)]
                     i == p2[Len(p2)]
                     e == fr.items[i] IN
                 /\ out' = IF bottom /\ IsElem(e) THEN Append(out, Append(fr.p, i)) ELSE out
                 /\ stack' = s2
                 /\ pos' = [p2 EXCEPT ![Len(p2)] = @ + 1]
         /\ UNCHANGED <<tree, bottom, done>>
Push ==  /\ stack # <<>> /\ CurPos <= Len(Top.items)
         /\ LET e == Top.items[CurPos]
                path == Append(Top.p, CurPos) IN
            /\ out' = IF ~bottom /\ IsElem(e) THEN Append(out, path) ELSE out
            /\ stack' = Append(stack, [p |-> path, items |-> IF IsElem(e) THEN Children(e) ELSE <<>>])
            /\ pos' = Append(pos, 1)
         /\ UNCHANGED <<tree, bottom, done>>
Finish == /\ stack = <<>> /\ ~done /\ done' = TRUE /\ UNCHANGED <<tree, bottom, stack, pos, out>>
Next == Pop \/ Push \/ Finish
Spec == Init /\ [][Next]_vars /\ WF_vars(Next)

Refines == done => out = IF bottom THEN Post(tree, <<1>>) ELSE Pre(tree, <<1>>)
StackBound == Len(stack) <= Height(tree) + 2 /\ Len(stack) = Len(pos)
OutIsPrefix == ~bottom => IsPrefix(out, Pre(tree, <<1>>))
Terminates == <>done

(* ------------------------------ builder (spec -> code) ------------------------------ *)
Probes == SetToSeq(Names \cup Keys)
BInit == /\ tree \in Trees /\ bottom = FALSE /\ stack = <<>> /\ pos = <<>> /\ out = <<>> /\ done = FALSE
Emit == /\ ~done /\ done' = TRUE /\ UNCHANGED <<tree, bottom, stack, pos, out>>
        /\ PrintT(ToJson([tree |-> tree,
                          pre |-> Pre(tree, <<1>>), post |-> Post(tree, <<1>>),
                          fa |-> [i \in 1 .. Len(Probes) |->
                                     [name |-> Probes[i],
                                      top |-> FindAll(tree, {Probes[i]}, TRUE, FALSE),
                                      bot |-> FindAll(tree, {Probes[i]}, FALSE, TRUE)]],
                          get |-> [i \in 1 .. Len(Probes) |-> [name |-> Probes[i], r |-> Get(tree, Probes[i])]],
                          path |-> [ij \in 1 .. Len(Probes) * Len(Probes) |->
                                      LET i == ((ij - 1) \div Len(Probes)) + 1
                                          j == ((ij - 1) % Len(Probes)) + 1 IN
                                      [a |-> Probes[i], b |-> Probes[j], r |-> Path2(tree, Probes[i], Probes[j])]]]))
BNext == Emit
BSpec == BInit /\ [][BNext]_vars
=============================================================================
