----------------------------- MODULE LLTokenizer -----------------------------
(***************************************************************************)
(* Source positions (C04).  Reference tokenizer for class-run token        *)
(* configurations as a state machine over the characters of the text, and  *)
(* the judge of observed tokens / tree node spans.                         *)
(*                                                                         *)
(* Text = sequence of lines, a line = sequence of code points.  Character  *)
(* classes: SPACE (32, tab 9 - ONE column wide - and form feed 12, which is whitespace but NOT a line break), WORD (97 'a', 98 'b'), NUM (49 '1'), span opener   *)
(* 60 '<' and closer 62 '>' (token CMT, may close on a later line);        *)
(* a quoted string '"' ... '"' on one line (token STR: the pattern matches *)
(* more than the value it reports); anything else matches no pattern.      *)
(* Machine: Scan (one maximal run = one token), OpenSpan, SpanLine,        *)
(* CloseSpan, NextLine, LexError, Eof.  pos = <<line, column>>, 1-based,   *)
(* end exclusive.                                                          *)
(* A case: [lines, aslist (text given as list of lines: no right-strip),   *)
(*  outcome |-> "ok" | "LexicalError" | "ParsingError", errline,           *)
(*  leaves |-> << [n, v, s |-> <<sl, sc, el, ec>>, orig |-> code points] >>,      *)
(*  nodes |-> << [first, last, empty, s, orig] >>, skip |-> set of skipped names] *)
(***************************************************************************)
EXTENDS Naturals, Integers, Sequences, FiniteSets, TLC, Json, IOUtils
Cases == ndJsonDeserialize(IOEnv.CASES)

Class(c) == IF c \in {32, 12, 9} THEN "SPACE" ELSE IF c \in {97, 98} THEN "WORD" ELSE IF c = 49 THEN "NUM"
            ELSE IF c = 60 THEN "OPEN" ELSE IF c = 62 THEN "CLOSE" ELSE IF c = 34 THEN "QUOTE" ELSE "NONE"

VARIABLES tid, ln, col, toks, open, phase, verdict
vars == <<tid, ln, col, toks, open, phase, verdict>>
C == Cases[tid]
(* str input is split at newlines and every line is right-stripped before tokenizing *)
RECURSIVE RStrip(_)
RStrip(s) == IF s # <<>> /\ s[Len(s)] \in {32, 12, 9} THEN RStrip(SubSeq(s, 1, Len(s) - 1)) ELSE s
Lines == IF C.aslist THEN C.lines ELSE [i \in 1 .. Len(C.lines) |-> RStrip(C.lines[i])]
Cur == Lines[ln]
NoSpan == [on |-> FALSE, sl |-> 0, sc |-> 0, body |-> <<>>]

Init == /\ tid \in 1 .. Len(Cases) /\ ln = 1 /\ col = 1 /\ toks = <<>> /\ open = NoSpan
        /\ phase = "scan" /\ verdict = "run"

RECURSIVE RunEnd(_, _, _)
(* last column of the maximal run of class k starting at column c of line s *)
RunEnd(s, c, k) == IF c < Len(s) /\ Class(s[c + 1]) = k THEN RunEnd(s, c + 1, k) ELSE c
Scanning == phase = "scan" /\ verdict = "run" /\ ln <= Len(Lines)

Scan == /\ Scanning /\ ~open.on /\ col <= Len(Cur) /\ Class(Cur[col]) \in {"SPACE", "WORD", "NUM"}
        /\ LET k == Class(Cur[col])  e == RunEnd(Cur, col, k) IN
             /\ toks' = Append(toks, [n |-> k, v |-> SubSeq(Cur, col, e), s |-> <<ln, col, ln, e + 1>>])
             /\ col' = e + 1
        /\ UNCHANGED <<tid, ln, open, phase, verdict>>
(* quoted string: the token covers both quotes, its value is the text between them *)
QuoteEnd == IF \E i \in (col + 1) .. Len(Cur) : Cur[i] = 34
              THEN CHOOSE i \in (col + 1) .. Len(Cur) : Cur[i] = 34 /\ \A j \in (col + 1) .. (i - 1) : Cur[j] # 34 ELSE 0
ScanStr == /\ Scanning /\ ~open.on /\ col <= Len(Cur) /\ Class(Cur[col]) = "QUOTE" /\ QuoteEnd # 0
           /\ toks' = Append(toks, [n |-> "STR", v |-> SubSeq(Cur, col + 1, QuoteEnd - 1), s |-> <<ln, col, ln, QuoteEnd + 1>>])
           /\ col' = QuoteEnd + 1 /\ UNCHANGED <<tid, ln, open, phase, verdict>>
OpenSpan == /\ Scanning /\ ~open.on /\ col <= Len(Cur) /\ Class(Cur[col]) = "OPEN"
            /\ open' = [on |-> TRUE, sl |-> ln, sc |-> col, body |-> <<>>]
            /\ col' = col + 1 /\ UNCHANGED <<tid, ln, toks, phase, verdict>>
(* inside a span: look for the closer on the rest of the line *)
CloserAt == IF \E i \in col .. Len(Cur) : Cur[i] = 62 THEN CHOOSE i \in col .. Len(Cur) : Cur[i] = 62 /\ \A j \in col .. (i - 1) : Cur[j] # 62 ELSE 0
CloseSpan == /\ Scanning /\ open.on /\ CloserAt # 0
             /\ toks' = Append(toks, [n |-> "CMT", v |-> open.body \o SubSeq(Cur, col, CloserAt - 1),
                                      s |-> <<open.sl, open.sc, ln, CloserAt + 1>>])
             /\ col' = CloserAt + 1 /\ open' = NoSpan /\ UNCHANGED <<tid, ln, phase, verdict>>
(* no closer on this line: the rest of the line and a newline join the body *)
SpanLine == /\ Scanning /\ open.on /\ CloserAt = 0
            /\ open' = [open EXCEPT !.body = @ \o SubSeq(Cur, col, Len(Cur)) \o <<10>>]
            /\ ln' = ln + 1 /\ col' = 1 /\ UNCHANGED <<tid, toks, phase, verdict>>
NextLine == /\ Scanning /\ ~open.on /\ col > Len(Cur)
            /\ ln' = ln + 1 /\ col' = 1 /\ UNCHANGED <<tid, toks, open, phase, verdict>>
LexError == /\ Scanning /\ ~open.on /\ col <= Len(Cur)
            /\ (Class(Cur[col]) \in {"NONE", "CLOSE"} \/ (Class(Cur[col]) = "QUOTE" /\ QuoteEnd = 0))
            /\ phase' = "lexerror" /\ UNCHANGED <<tid, ln, col, toks, open, verdict>>
Eof == /\ phase = "scan" /\ verdict = "run" /\ ln > Len(Lines)
       /\ phase' = (IF open.on THEN "unclosed" ELSE "judge") /\ UNCHANGED <<tid, ln, col, toks, open, verdict>>

(* ---------------- the judge ---------------- *)
Done(v) == verdict' = v /\ PrintT(<<v, tid>>) /\ UNCHANGED <<tid, ln, col, toks, open, phase>>
Shown == SelectSeq(toks, LAMBDA t : t.n \notin { C.skip[i] : i \in 1 .. Len(C.skip) })
(* the text a span <<sl, sc, el, ec>> delimits: lines joined by newline (as given, not stripped) *)
RECURSIVE Slice(_)
Slice(s) == IF s[1] = s[3] THEN SubSeq(C.lines[s[1]], s[2], s[4] - 1)
            ELSE SubSeq(C.lines[s[1]], s[2], Len(C.lines[s[1]])) \o <<10>> \o Slice(<<s[1] + 1, 1, s[3], s[4]>>)
InText(s) == /\ s[1] >= 1 /\ s[3] <= Len(C.lines) /\ s[1] <= s[3] /\ s[2] >= 1 /\ s[4] >= 1
             /\ s[4] - 1 <= Len(C.lines[s[3]]) /\ s[2] - 1 <= Len(C.lines[s[1]]) /\ (s[1] = s[3] => s[2] <= s[4])
EndPos == IF toks = <<>> THEN <<1, 1>> ELSE <<toks[Len(toks)].s[3], toks[Len(toks)].s[4]>>
(* the value of a span token (how line breaks inside the body are represented) is not part of C04 *)
LeafOK(i) == /\ C.leaves[i].n = Shown[i].n /\ (Shown[i].n # "CMT" => C.leaves[i].v = Shown[i].v) /\ C.leaves[i].s = Shown[i].s
             /\ InText(Shown[i].s) /\ C.leaves[i].orig = Slice(Shown[i].s)
StartOf(i) == IF i <= Len(Shown) THEN <<Shown[i].s[1], Shown[i].s[2]>> ELSE EndPos
NodeOK(nd) == IF nd.empty
                THEN nd.s = StartOf(nd.first) \o StartOf(nd.first) /\ nd.orig = <<>>
                ELSE /\ nd.s = <<Shown[nd.first].s[1], Shown[nd.first].s[2], Shown[nd.last].s[3], Shown[nd.last].s[4]>>
                     /\ InText(nd.s) /\ nd.orig = Slice(nd.s)
JudgeOK == /\ phase = "judge" /\ verdict = "run"
           /\ IF C.outcome = "LexicalError" THEN Done("REJECT-unexpected-lexical-error")
              ELSE IF C.outcome = "ParsingError" THEN Done("ACCEPT")        \* positions of a failed parse are not judged
              ELSE IF Len(C.leaves) # Len(Shown) THEN Done("REJECT-leaf-count")
              ELSE IF \E i \in 1 .. Len(Shown) : ~LeafOK(i) THEN Done("REJECT-leaf-position-or-text")
              ELSE IF \E k \in 1 .. Len(C.nodes) : ~NodeOK(C.nodes[k]) THEN Done("REJECT-node-span")
              ELSE Done("ACCEPT")
JudgeLex == /\ phase = "lexerror" /\ verdict = "run"
            /\ IF C.outcome = "LexicalError" /\ C.errline = ln THEN Done("ACCEPT") ELSE Done("REJECT-lexical-error-expected-at-line")
JudgeUnclosed == /\ phase = "unclosed" /\ verdict = "run"
                 /\ IF C.outcome = "LexicalError" THEN Done("ACCEPT") ELSE Done("REJECT-unclosed-span-accepted")
Next == Scan \/ ScanStr \/ OpenSpan \/ CloseSpan \/ SpanLine \/ NextLine \/ LexError \/ Eof \/ JudgeOK \/ JudgeLex \/ JudgeUnclosed
Spec == Init /\ [][Next]_vars

(* ---------------- model-level invariants of the reference tokenizer ---------------- *)
(* tokens on one line are adjacent, spans never move backwards, every token delimits its own lexeme *)
Adjacent == \A i \in 1 .. (Len(toks) - 1) :
   (toks[i].s[3] = toks[i + 1].s[1]) => toks[i].s[4] = toks[i + 1].s[2]
Monotone == \A i \in 1 .. (Len(toks) - 1) :
   toks[i].s[3] < toks[i + 1].s[1] \/ (toks[i].s[3] = toks[i + 1].s[1] /\ toks[i].s[4] <= toks[i + 1].s[2])
=============================================================================
