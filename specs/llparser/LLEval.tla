------------------------------- MODULE LLEval -------------------------------
(* Evaluates the A-spec on grammars given as JSON (used for replaying single cases and for  *)
(* grammars that do not come from the LLCases builder):                                       *)
(*   line = [start, terms, prods, k]  ->  prints [id, leftrec, lrsyms, ll1, lang]            *)
EXTENDS Naturals, Sequences, FiniteSets, TLC, Json, IOUtils, LLGrammar
Cases == ndJsonDeserialize(IOEnv.CASES)
VARIABLES tid, done
vars == <<tid, done>>
Gram(c) == [nts |-> { x : x \in DOMAIN c.prods }, terms |-> { c.terms[i] : i \in 1 .. Len(c.terms) },
            start |-> c.start, prods |-> c.prods]
Init == tid \in 1 .. Len(Cases) /\ done = FALSE
Eval == /\ ~done /\ done' = TRUE /\ UNCHANGED tid
        /\ LET G == Gram(Cases[tid]) IN
             PrintT(ToJson([id      |-> tid,
                            leftrec |-> LeftRecursive(G),
                            lrsyms  |-> LeftRecursiveSyms(G),
                            ll1     |-> IF LeftRecursive(G) THEN FALSE ELSE IsLL1(G),
                            lang    |-> IF LeftRecursive(G) THEN {} ELSE Lang(G, Cases[tid].k)[G.start]]))
Next == Eval
Spec == Init /\ [][Next]_vars
=============================================================================
