------------------------------ MODULE LLGrammar ------------------------------
(***************************************************************************)
(* Declarative theory of context-free grammars with ORDERED alternatives,  *)
(* used as the abstract specification (A-spec) of ak/llparser.py.          *)
(*                                                                         *)
(* A grammar is a record                                                   *)
(*   [nts, terms, start, prods : nts -> Seq(Seq(nts \cup terms))]          *)
(* Nothing here mentions helper symbols, tables or stacks.                 *)
(***************************************************************************)
EXTENDS Naturals, Sequences, FiniteSets

EndTok == "$END$"

AltIdx(G, A) == 1 .. Len(G.prods[A])

(* ---------------- nullable ---------------- *)
NullStep(G, S) ==
  S \cup { A \in G.nts : \E i \in AltIdx(G, A) :
                 \A j \in 1 .. Len(G.prods[A][i]) : G.prods[A][i][j] \in S }
RECURSIVE NullFix(_, _)
NullFix(G, S) == LET T == NullStep(G, S) IN IF T = S THEN S ELSE NullFix(G, T)
Nullable(G) == NullFix(G, {})

SeqNullable(N, s) == \A j \in 1 .. Len(s) : s[j] \in N

(* ---------------- FIRST ---------------- *)
RECURSIVE SeqFirst(_, _, _, _)
SeqFirst(G, F, N, s) ==
  IF s = <<>> THEN {}
  ELSE LET h == Head(s) IN
       IF h \in G.terms THEN {h}
       ELSE F[h] \cup (IF h \in N THEN SeqFirst(G, F, N, Tail(s)) ELSE {})

FirstStep(G, N, F) ==
  [A \in G.nts |-> F[A] \cup UNION { SeqFirst(G, F, N, G.prods[A][i]) : i \in AltIdx(G, A) }]
RECURSIVE FirstFix(_, _, _)
FirstFix(G, N, F) == LET T == FirstStep(G, N, F) IN IF T = F THEN F ELSE FirstFix(G, N, T)
First(G) == FirstFix(G, Nullable(G), [A \in G.nts |-> {}])

(* ---------------- FOLLOW ---------------- *)
Suffix(s, j) == SubSeq(s, j + 1, Len(s))
FollowStep(G, N, F, W) ==
  [B \in G.nts |-> W[B] \cup UNION { UNION { UNION {
       IF G.prods[A][i][j] = B
         THEN SeqFirst(G, F, N, Suffix(G.prods[A][i], j))
              \cup (IF SeqNullable(N, Suffix(G.prods[A][i], j)) THEN W[A] ELSE {})
         ELSE {}
       : j \in 1 .. Len(G.prods[A][i]) } : i \in AltIdx(G, A) } : A \in G.nts }]
RECURSIVE FollowFix(_, _, _, _)
FollowFix(G, N, F, W) ==
  LET T == FollowStep(G, N, F, W) IN IF T = W THEN W ELSE FollowFix(G, N, F, T)
Follow(G) == FollowFix(G, Nullable(G), First(G),
                       [B \in G.nts |-> IF B = G.start THEN {EndTok} ELSE {}])

(* ---------------- LL(1) as written ---------------- *)
Predict(G, N, F, W, A, i) ==
  SeqFirst(G, F, N, G.prods[A][i]) \cup (IF SeqNullable(N, G.prods[A][i]) THEN W[A] ELSE {})
IsLL1(G) ==
  LET N == Nullable(G)  F == First(G)  W == Follow(G) IN
  \A A \in G.nts : \A i \in AltIdx(G, A) : \A j \in AltIdx(G, A) :
      i < j => Predict(G, N, F, W, A, i) \cap Predict(G, N, F, W, A, j) = {}

(* ---------------- left recursion ---------------- *)
(* B is a left corner of A: some alternative of A has B behind a nullable prefix *)
LeftCorners(G, N, A) ==
  { B \in G.nts : \E i \in AltIdx(G, A) : \E j \in 1 .. Len(G.prods[A][i]) :
        /\ G.prods[A][i][j] = B
        /\ \A k \in 1 .. (j - 1) : G.prods[A][i][k] \in N }
RECURSIVE ReachFix(_, _, _)
ReachFix(G, N, S) ==
  LET T == S \cup UNION { LeftCorners(G, N, B) : B \in S } IN
  IF T = S THEN S ELSE ReachFix(G, N, T)
LeftRecursiveSyms(G) ==
  LET N == Nullable(G) IN { A \in G.nts : A \in ReachFix(G, N, LeftCorners(G, N, A)) }
LeftRecursive(G) == LeftRecursiveSyms(G) # {}

(* ---------------- language, bounded by length K ---------------- *)
RECURSIVE AltLang(_, _, _, _)
AltLang(G, L, K, alt) ==
  IF alt = <<>> THEN { <<>> }
  ELSE LET h    == Head(alt)
           hs   == IF h \in G.terms THEN { <<h>> } ELSE L[h]
           rest == AltLang(G, L, K, Tail(alt))
       IN { p[1] \o p[2] : p \in { q \in hs \X rest : Len(q[1]) + Len(q[2]) <= K } }
LangStep(G, L, K) ==
  [A \in G.nts |-> L[A] \cup UNION { AltLang(G, L, K, G.prods[A][i]) : i \in AltIdx(G, A) }]
RECURSIVE LangFix(_, _, _)
LangFix(G, L, K) == LET T == LangStep(G, L, K) IN IF T = L THEN L ELSE LangFix(G, T, K)
(* Lang(G, K)[A] = all terminal strings of length <= K derivable from A *)
Lang(G, K) == LangFix(G, [A \in G.nts |-> {}], K)
InLanguage(G, toks) == toks \in Lang(G, Len(toks))[G.start]

(* ---------------- derivation trees ---------------- *)
(* a tree node is [n |-> name, v |-> lexeme] (leaf made from a token) or                *)
(* [n |-> name, k |-> <<children>>] (inner node; k = <<>> for a node that matched nothing) *)
IsLeaf(t) == "v" \in DOMAIN t
RECURSIVE ValidNode(_, _)
ValidNode(G, t) ==
  IF IsLeaf(t) THEN t.n \in G.terms
  ELSE /\ t.n \in G.nts
       /\ \E i \in AltIdx(G, t.n) :
             /\ Len(G.prods[t.n][i]) = Len(t.k)
             /\ \A j \in 1 .. Len(t.k) : G.prods[t.n][i][j] = t.k[j].n
       /\ \A j \in 1 .. Len(t.k) : ValidNode(G, t.k[j])
RECURSIVE Yield(_)
RECURSIVE YieldSeq(_)
YieldSeq(ks) == IF ks = <<>> THEN <<>> ELSE Yield(Head(ks)) \o YieldSeq(Tail(ks))
Yield(t) == IF IsLeaf(t) THEN << [n |-> t.n, v |-> t.v] >> ELSE YieldSeq(t.k)

(* toks: the non-skipped tokens of the input as records [n |-> name, v |-> value] *)
ValidParse(G, toks, t) ==
  /\ ~IsLeaf(t) /\ t.n = G.start
  /\ ValidNode(G, t)
  /\ Yield(t) = toks
=============================================================================
