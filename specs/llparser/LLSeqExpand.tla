---------------------------- MODULE LLSeqExpand ----------------------------
(***************************************************************************)
(* Expansion of a ProdSequence template into plain productions (I-spec of  *)
(* ProdSequence.gen_productions of ak/llparser.py) and what the A-spec      *)
(* LLGrammar says about the expanded grammar (C03: a sequence whose element *)
(* can match nothing reaches itself without consuming a token).            *)
(*                                                                         *)
(*   SEQ -> SEQ__ELEMENT SEQ | <empty>          SEQ__ELEMENT -> X1 | X2 ...  *)
(* Elements: the terminal "w", a non-terminal that is not nullable          *)
(* (CM -> ,), one that is nullable (OC -> , | <empty>) and one that is       *)
(* nullable through another symbol (CH -> OC).  Context: E -> SEQ ";".       *)
(***************************************************************************)
EXTENDS Naturals, Sequences, FiniteSets, TLC, Json, LLGrammar

Elems == { "w", "CM", "OC", "CH" }
ElemLists == UNION { [1 .. n -> Elems] : n \in 1 .. 2 }
NoRepeat(l) == \A i, j \in 1 .. Len(l) : i # j => l[i] # l[j]
Uses(l, x) == \E i \in 1 .. Len(l) : l[i] = x
Expanded(l) ==
  LET base == [E |-> << <<"SEQ", ";">> >>,
               SEQ |-> << <<"SEQ__ELEMENT", "SEQ">>, <<>> >>,
               SEQ__ELEMENT |-> [i \in 1 .. Len(l) |-> <<l[i]>>]]
      cm == IF Uses(l, "CM") THEN base @@ [CM |-> << <<",">> >>] ELSE base
      oc == IF Uses(l, "OC") \/ Uses(l, "CH") THEN cm @@ [OC |-> << <<",">>, <<>> >>] ELSE cm
      ch == IF Uses(l, "CH") THEN oc @@ [CH |-> << <<"OC">> >>] ELSE oc IN
  ch
Gram(l) == [nts |-> DOMAIN Expanded(l), terms |-> {"w", ",", ";"}, start |-> "E", prods |-> Expanded(l)]

VARIABLES elems, done
vars == <<elems, done>>
Init == elems \in { l \in ElemLists : NoRepeat(l) } /\ done = FALSE
Report == /\ ~done /\ done' = TRUE /\ UNCHANGED elems
          /\ PrintT(ToJson([elems |-> elems, prods |-> Expanded(elems),
                            leftrec |-> LeftRecursive(Gram(elems)), lrsyms |-> LeftRecursiveSyms(Gram(elems))]))
Next == Report
Spec == Init /\ [][Next]_vars
(* a sequence is left recursive exactly when one of its elements can match nothing *)
RecursiveIffNullableElement ==
  LeftRecursive(Gram(elems)) <=> (Uses(elems, "OC") \/ Uses(elems, "CH"))
=============================================================================
