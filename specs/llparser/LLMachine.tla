------------------------------ MODULE LLMachine ------------------------------
(***************************************************************************)
(* I-spec of the backtracking parse machine of ak/llparser.py (the loop of *)
(* LLParser.parse), of the parse table and of the grammar factorization,   *)
(* run on the INTERNALS OF REAL PARSERS (trace validation, code -> spec).  *)
(*                                                                         *)
(* A case: [g |-> user grammar [start, terms, prods],                      *)
(*          pm |-> the parser's prods_map (after factorization),           *)
(*          suffix |-> <<helper symbols>>,                                  *)
(*          table |-> << [sym, tok, alts |-> <<indices into pm[sym]>>] >>,  *)
(*          runs |-> << [toks |-> <<token names>>, res |-> "tree" | "ParsingError",  *)
(*                       tree, events |-> << [k, st |-> <<[sym, start, cur, ai, nv]>>] >>,     *)
(*                       err |-> [sym, toks, alts] content of the ParsingError ("" / <<>> if none)] >>] *)
(* Machine actions: Expand, MatchTerminal, Complete, Rollback, Fail; one   *)
(* frame = [sym, start, cur, alts, ai, vals].  The machine logs the same   *)
(* stack snapshots the real parser exposes through its debug hooks.        *)
(* Verdicts (all I-level: a disagreement is DRIFT, the property verdicts   *)
(* come from the A-spec judges):                                           *)
(*   TABLE   real table = predict sets of the declarative FIRST/FOLLOW on pm *)
(*   FACTOR  un-factoring pm gives the user's alternatives in order         *)
(*   RUN     machine outcome, tree and event log = the real ones; the       *)
(*           machine's own result satisfies the A-spec (ValidParse); the    *)
(*           content of ParsingError (symbol, following tokens, attempted   *)
(*           productions of the frame that was on top when the parser got   *)
(*           furthest for the first time - register "longest") is the same  *)
(***************************************************************************)
EXTENDS Naturals, Sequences, FiniteSets, TLC, Json, IOUtils, LLGrammar
Cases == ndJsonDeserialize(IOEnv.CASES)

StartSym == "$START$"
VARIABLES tid, ri, stack, phase, result, log, steps,
          longest     \* [set, cur, sym, start, alts]: top frame at the first failure that reached token position cur
vars == <<tid, ri, stack, phase, result, log, steps, longest>>
NoLongest == [set |-> FALSE, cur |-> 0, sym |-> "", start |-> 0, alts |-> <<>>]
C == Cases[tid]
ToSet(s) == { s[i] : i \in 1 .. Len(s) }
Terms == ToSet(C.g.terms) \cup {EndTok}
Helpers == ToSet(C.suffix)
PM == C.pm
Toks == C.runs[ri].toks \o <<EndTok>>
TableRow(A, t) == IF \E i \in 1 .. Len(C.table) : C.table[i].sym = A /\ C.table[i].tok = t
                    THEN C.table[CHOOSE i \in 1 .. Len(C.table) : C.table[i].sym = A /\ C.table[i].tok = t].alts ELSE <<>>

(* ---------------- static facts ---------------- *)
FG == [nts |-> DOMAIN PM, terms |-> ToSet(C.g.terms), start |-> C.g.start, prods |-> PM]     \* the factorized grammar
ExpectedRow(A, t) ==
  LET N == Nullable(FG)  F == First(FG)  W == Follow(FG) IN
  SelectSeq([i \in 1 .. Len(PM[A]) |-> i], LAMBDA i : t \in Predict(FG, N, F, W, A, i))
TableOK == \A A \in DOMAIN PM : \A t \in Terms : TableRow(A, t) = ExpectedRow(A, t)
(* un-factoring: a rule that ends in a helper symbol stands for prefix \o every alternative of the helper *)
RECURSIVE Unfold(_)
RECURSIVE UnfoldAll(_)
UnfoldAll(rules) == IF rules = <<>> THEN <<>> ELSE Unfold(Head(rules)) \o UnfoldAll(Tail(rules))
Unfold(rule) == IF rule # <<>> /\ rule[Len(rule)] \in Helpers
                  THEN LET pre == SubSeq(rule, 1, Len(rule) - 1)
                           subs == UnfoldAll(PM[rule[Len(rule)]]) IN
                       [i \in 1 .. Len(subs) |-> pre \o subs[i]]
                  ELSE <<rule>>
FactorOK == /\ DOMAIN PM = DOMAIN C.g.prods \cup Helpers
            /\ \A A \in DOMAIN C.g.prods : UnfoldAll(PM[A]) = C.g.prods[A]
            /\ \A A \in DOMAIN PM : \A i \in 1 .. Len(PM[A]) : \A j \in 1 .. (Len(PM[A][i]) - 1) : PM[A][i][j] \notin Helpers

(* ---------------- the machine ---------------- *)
Frame(sym, pos, alts) == [sym |-> sym, start |-> pos, cur |-> pos, alts |-> alts, ai |-> 1, vals |-> <<>>]
Prod(f) == IF f.sym = StartSym THEN <<C.g.start, EndTok>> ELSE PM[f.sym][f.alts[f.ai]]
Snap == [i \in 1 .. Len(stack) |-> [sym |-> stack[i].sym, start |-> stack[i].start, cur |-> stack[i].cur,
                                    ai |-> stack[i].ai - 1, nv |-> Len(stack[i].vals)]]
Ev(k) == [k |-> k, st |-> Snap]

Init == /\ tid \in 1 .. Len(Cases) /\ ri = 0 /\ stack = <<>> /\ phase = "static" /\ result = [n |-> "none", k |-> <<>>]
        /\ log = <<>> /\ steps = 0 /\ longest = NoLongest
Static == /\ phase = "static"
          /\ PrintT(<<IF TableOK THEN "TABLE-OK" ELSE "TABLE-DIFF", tid>>)
          /\ PrintT(<<IF FactorOK THEN "FACTOR-OK" ELSE "FACTOR-DIFF", tid>>)
          /\ phase' = "next" /\ UNCHANGED <<tid, ri, stack, result, log, steps, longest>>
StartRun == /\ phase = "next" /\ ri < Len(C.runs)
            /\ ri' = ri + 1 /\ phase' = "run" /\ steps' = 0
            /\ stack' = << Frame(StartSym, 0, <<1>>) >>
            /\ log' = << [k |-> "cur", st |-> << [sym |-> StartSym, start |-> 0, cur |-> 0, ai |-> 0, nv |-> 0] >>] >>
            /\ longest' = NoLongest
            /\ UNCHANGED <<tid, result>>
Top == stack[Len(stack)]
AtEnd == Len(Top.vals) = Len(Prod(Top))
NextSym == Prod(Top)[Len(Top.vals) + 1]
NextTok == Toks[Top.cur + 1]
Run == phase = "run"

Complete ==
  /\ Run /\ AtEnd
  /\ LET f == Top
         p == Prod(f)
         kids == IF p # <<>> /\ p[Len(p)] \in Helpers
                   THEN SubSeq(f.vals, 1, Len(f.vals) - 1) \o f.vals[Len(f.vals)].k     \* splice the helper's children
                   ELSE f.vals
         node == [n |-> f.sym, k |-> kids]
         rest == SubSeq(stack, 1, Len(stack) - 1) IN
     /\ log' = Append(log, Ev("res"))
     /\ IF rest = <<>>
          THEN /\ phase' = "done" /\ result' = node.k[1] /\ stack' = rest
          ELSE /\ stack' = [rest EXCEPT ![Len(rest)].vals = Append(@, node), ![Len(rest)].cur = f.cur]
               /\ UNCHANGED <<phase, result>>
  /\ steps' = steps + 1 /\ UNCHANGED <<tid, ri, longest>>
MatchTerminal ==
  /\ Run /\ ~AtEnd /\ NextSym \in Terms /\ NextTok = NextSym
  /\ stack' = [stack EXCEPT ![Len(stack)].vals = Append(@, [n |-> NextSym, v |-> NextSym]), ![Len(stack)].cur = @ + 1]
  /\ steps' = steps + 1 /\ UNCHANGED <<tid, ri, phase, result, log, longest>>
Expand ==
  /\ Run /\ ~AtEnd /\ NextSym \notin Terms /\ TableRow(NextSym, NextTok) # <<>>
  /\ stack' = Append(stack, Frame(NextSym, Top.cur, TableRow(NextSym, NextTok)))
  /\ log' = Append(log, [k |-> "cur", st |-> Snap \o << [sym |-> NextSym, start |-> Top.cur, cur |-> Top.cur, ai |-> 0, nv |-> 0] >>])
  /\ steps' = steps + 1 /\ UNCHANGED <<tid, ri, phase, result, longest>>
Stuck == ~AtEnd /\ ((NextSym \in Terms /\ NextTok # NextSym) \/ (NextSym \notin Terms /\ TableRow(NextSym, NextTok) = <<>>))
CanRetry(i) == stack[i].ai < Len(stack[i].alts)
(* on every failure: remember the top frame if the parser never failed this far before *)
Remember == IF ~longest.set \/ longest.cur < Top.cur
              THEN [set |-> TRUE, cur |-> Top.cur, sym |-> Top.sym, start |-> Top.start, alts |-> Top.alts]
              ELSE longest
Rollback ==
  /\ Run /\ Stuck /\ \E i \in 1 .. Len(stack) : CanRetry(i)
  /\ LET r == CHOOSE i \in 1 .. Len(stack) : CanRetry(i) /\ \A j \in (i + 1) .. Len(stack) : ~CanRetry(j)
         cut == SubSeq(stack, 1, r)
         st2 == [cut EXCEPT ![r].vals = <<>>, ![r].cur = cut[r].start, ![r].ai = @ + 1] IN
     /\ stack' = st2
     /\ log' = log \o << Ev("res"),
                         [k |-> "cur", st |-> [i \in 1 .. r |-> [sym |-> st2[i].sym, start |-> st2[i].start, cur |-> st2[i].cur,
                                                                 ai |-> st2[i].ai - 1, nv |-> Len(st2[i].vals)]]] >>
  /\ longest' = Remember
  /\ steps' = steps + 1 /\ UNCHANGED <<tid, ri, phase, result>>
Fail ==
  /\ Run /\ Stuck /\ ~\E i \in 1 .. Len(stack) : CanRetry(i)
  /\ log' = Append(log, Ev("res")) /\ phase' = "failed"
  /\ longest' = Remember
  /\ steps' = steps + 1 /\ UNCHANGED <<tid, ri, stack, result>>

(* ---------------- per run verdict ---------------- *)
RECURSIVE Names(_)
Names(t) == IF "v" \in DOMAIN t THEN [n |-> t.n] ELSE [n |-> t.n, k |-> [i \in 1 .. Len(t.k) |-> Names(t.k[i])]]
UG == [nts |-> DOMAIN C.g.prods, terms |-> ToSet(C.g.terms), start |-> C.g.start, prods |-> C.g.prods]
TokRecs == [i \in 1 .. Len(C.runs[ri].toks) |-> [n |-> C.runs[ri].toks[i], v |-> C.runs[ri].toks[i]]]
FirstDiff == IF \E i \in 1 .. Len(log) : i > Len(C.runs[ri].events) \/ log[i] # C.runs[ri].events[i]
               THEN CHOOSE i \in 1 .. Len(log) : (i > Len(C.runs[ri].events) \/ log[i] # C.runs[ri].events[i])
                                                  /\ \A j \in 1 .. (i - 1) : j <= Len(C.runs[ri].events) /\ log[j] = C.runs[ri].events[j]
               ELSE IF Len(log) < Len(C.runs[ri].events) THEN Len(log) + 1 ELSE 0
(* what ParsingError must say: the symbol of the remembered frame, up to 5 tokens from where that frame started, *)
(* the productions the frame could try                                                                            *)
ErrRec == [sym |-> longest.sym,
           toks |-> SubSeq(Toks, longest.start + 1, IF longest.start + 5 < Len(Toks) THEN longest.start + 5 ELSE Len(Toks)),
           alts |-> IF longest.sym = StartSym THEN << <<C.g.start, EndTok>> >>
                    ELSE [i \in 1 .. Len(longest.alts) |-> PM[longest.sym][longest.alts[i]]]]
Verdict ==
  /\ phase \in {"done", "failed"}
  /\ LET R == C.runs[ri]
         errsame == phase = "failed" => ErrRec = R.err
         same == (R.res = "tree") = (phase = "done")
         tree == phase = "done" => Names(result) = Names(R.tree)
         aspec == phase = "done" => ValidParse(UG, TokRecs, result) IN
     PrintT(<< IF ~aspec THEN "RUN-MACHINE-BREAKS-ASPEC" ELSE IF ~same THEN "RUN-OUTCOME-DIFF" ELSE IF ~tree THEN "RUN-TREE-DIFF"
               ELSE IF FirstDiff # 0 THEN "RUN-EVENTS-DIFF" ELSE IF ~errsame THEN "RUN-ERROR-DIFF" ELSE "RUN-OK", tid, ri, FirstDiff, steps >>)
  /\ phase' = "next" /\ UNCHANGED <<tid, ri, stack, result, log, steps, longest>>
Next == Static \/ StartRun \/ Complete \/ MatchTerminal \/ Expand \/ Rollback \/ Fail \/ Verdict
Spec == Init /\ [][Next]_vars /\ WF_vars(Next)

(* ---------------- checked by TLC on every judged run ---------------- *)
(* the stack cannot grow beyond (#symbols + 1) frames per token position for a grammar without left recursion *)
StackBound == phase = "run" => Len(stack) <= (Cardinality(DOMAIN PM) + 1) * (Len(Toks) + 1) + 1
(* every frame starts where its parent stands; token cursors never run past the end token *)
FramesChained == phase = "run" => \A i \in 2 .. Len(stack) : stack[i].start = stack[i - 1].cur /\ stack[i].cur <= Len(Toks)
(* the remembered failure lies inside the text and its frame started no later than it failed *)
LongestInText == longest.set => longest.start <= longest.cur /\ longest.cur < Len(Toks)
(* every run ends *)
Terminates == [](phase = "run" => <>(phase # "run"))
=============================================================================
