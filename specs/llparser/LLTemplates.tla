------------------------------ MODULE LLTemplates ------------------------------
(***************************************************************************)
(* List / map / sequence templates (C05).                                  *)
(*                                                                         *)
(* Data  d ::= [t |-> "atom", a] | [t |-> "none"] (an empty list item)      *)
(*           | [t |-> "list", es |-> <<d>>] | [t |-> "map", kvs |-> << <<key, d>> >>]   *)
(* Render(d, o) is the set of token streams that denote d under the option *)
(* set o (with / without the optional final delimiter); Denote(d) is the   *)
(* value the cleaned parse result must have.  The builder picks an option  *)
(* set, a datum and one rendering; "bad" cases carry a final delimiter     *)
(* where it is not allowed and must be rejected with ParsingError.         *)
(***************************************************************************)
EXTENDS Naturals, Sequences, FiniteSets, TLC, Json
CONSTANTS Depth, Width, Emit,
          Tops        \* the top forms to use; {} = all of them

Atoms == { "a", "b" }
Keys == { "k", "m" }
Atom(x) == [t |-> "atom", a |-> x]
NoneItem == [t |-> "none"]
RECURSIVE Data(_)
Data(d) == IF d = 0 THEN { Atom(x) : x \in Atoms } \cup { [t |-> "list", es |-> <<>>], [t |-> "map", kvs |-> <<>>] }
           ELSE LET sub == Data(d - 1) IN
                Data(0) \cup { [t |-> "list", es |-> s] : s \in UNION { [1 .. n -> sub \cup {NoneItem}] : n \in 1 .. Width } }
                        \cup { [t |-> "map", kvs |-> s] : s \in UNION { [1 .. n -> Keys \X sub] : n \in 1 .. Width } }

(* option sets: list delimiter, final delimiter setting, nullable list items, map final delimiter, top form  *)
(* top forms: "value" E -> VALUE; "optional" E -> WORD [LIST] [MAP]; "bare" a bracket-less list at the top;   *)
(* "args" every atom is followed by an absent optional list (VALUE -> WORD [ARGS] | LIST | MAP), so that the    *)
(* optional container is absent at the end of list items, map values and the whole text;                      *)
(* "decls" a bracket-less ';' list of declarations  w = VALUE  with VALUE as in "args" (the absent optional    *)
(* list ends a chain of productions); "baremap" a bracket-less map at the top (no pairs = the empty text = {}); *)
(* "rows" a bracketed ';' list whose items are bracket-less lists of words: [a, b; ; c] (an atom stands for the  *)
(* row holding it, an empty list for an empty row); "pre" as "args" but the (absent) optional list stands BEFORE *)
(* the word: VALUE -> REC | LIST | MAP, REC -> [ARGS] WORD                                                      *)
Opts == { [top |-> tp, delim |-> dl, afd |-> af, nullable |-> nu, mapafd |-> ma] :
             tp \in {"value", "optional", "bare", "args", "decls", "baremap", "rows", "pre"}, dl \in BOOLEAN, af \in {"default", "yes", "no"}, nu \in BOOLEAN, ma \in BOOLEAN }
OptsOK(o) == /\ (o.afd = "yes" => o.delim) /\ (o.nullable => o.delim)
             /\ (o.top = "bare" => o.afd # "yes")      \* nullable items: "a," is the list [a, None] (no final delimiter without brackets)
             /\ (o.top = "baremap" => o.afd = "default" /\ ~o.nullable)
             /\ (o.top = "pre" => o.afd = "default" /\ ~o.nullable)
             /\ (o.top = "rows" => o.afd = "default" /\ ~o.nullable /\ ~o.mapafd)
FinalAllowed(o) == o.delim /\ o.afd # "no"

RECURSIVE HasNone(_)
HasNone(d) == IF d.t = "list" THEN \E i \in 1 .. Len(d.es) : d.es[i].t = "none" \/ HasNone(d.es[i])
              ELSE IF d.t = "map" THEN \E i \in 1 .. Len(d.kvs) : HasNone(d.kvs[i][2]) ELSE FALSE
RECURSIVE LastNone(_)
LastNone(d) == IF d.t = "list" THEN (d.es # <<>> /\ d.es[Len(d.es)].t = "none") \/ \E i \in 1 .. Len(d.es) : LastNone(d.es[i])
               ELSE IF d.t = "map" THEN \E i \in 1 .. Len(d.kvs) : LastNone(d.kvs[i][2]) ELSE FALSE
(* data that can be written under an option set *)
(* a last item that is empty is written only at the top of a bracket-less list of at least two items ("a," = [a, None]; *)
(* one empty item alone is the empty text = the empty list); inside brackets "[a,]" is read as a final delimiter          *)
LastNoneOK(d, o) == IF o.top = "bare" /\ o.nullable /\ d.t = "list" /\ Len(d.es) >= 2
                      THEN \A i \in 1 .. Len(d.es) : ~LastNone(d.es[i])
                      ELSE ~LastNone(d)
Fits(d, o) == /\ (HasNone(d) => o.nullable) /\ LastNoneOK(d, o)
              /\ (d.t = "list" /\ d.es # <<>> => d.es[1].t # "none" \/ o.nullable)

RECURSIVE Flat(_)
Flat(ss) == IF ss = <<>> THEN <<>> ELSE Head(ss) \o Flat(Tail(ss))
(* fin: function deciding, per container (numbered in rendering order is too fine: one flag for all), *)
(* whether containers that may carry a final delimiter do carry one                                    *)
RECURSIVE Render(_, _, _, _)
Render(d, o, fin, badfin) ==
  IF d.t = "atom" THEN <<d.a>>
  ELSE IF d.t = "none" THEN <<>>
  ELSE IF d.t = "list" THEN
       LET n == Len(d.es)
           item(i) == Render(d.es[i], o, fin, badfin) \o (IF o.delim /\ i < n THEN <<",">> ELSE <<>>)
           last == IF n > 0 /\ o.delim /\ ((fin /\ FinalAllowed(o)) \/ (badfin /\ ~FinalAllowed(o))) THEN <<",">> ELSE <<>> IN
       <<"[">> \o Flat([i \in 1 .. n |-> item(i)]) \o last \o <<"]">>
  ELSE LET n == Len(d.kvs)
           kv(i) == <<d.kvs[i][1], ":">> \o Render(d.kvs[i][2], o, fin, badfin) \o (IF i < n THEN <<",">> ELSE <<>>)
           last == IF n > 0 /\ ((fin /\ o.mapafd) \/ (badfin /\ ~o.mapafd)) THEN <<",">> ELSE <<>> IN
       <<"{">> \o Flat([i \in 1 .. n |-> kv(i)]) \o last \o <<"}">>

(* ---- what the cleaned result must be ---- *)
RECURSIVE Denote(_)
LastIdx(kvs, k) == CHOOSE i \in 1 .. Len(kvs) : kvs[i][1] = k /\ \A j \in (i + 1) .. Len(kvs) : kvs[j][1] # k
FirstOcc(kvs) == SelectSeq([i \in 1 .. Len(kvs) |-> i], LAMBDA i : \A j \in 1 .. (i - 1) : kvs[j][1] # kvs[i][1])
Denote(d) ==
  IF d.t = "atom" THEN [t |-> "str", s |-> d.a]
  ELSE IF d.t = "none" THEN [t |-> "None"]
  ELSE IF d.t = "list" THEN [t |-> "list", es |-> [i \in 1 .. Len(d.es) |-> Denote(d.es[i])]]
  ELSE [t |-> "dict", kvs |-> [j \in 1 .. Len(FirstOcc(d.kvs)) |->
            LET k == d.kvs[FirstOcc(d.kvs)[j]][1] IN <<k, Denote(d.kvs[LastIdx(d.kvs, k)][2])>>]]

VARIABLES opt, datum, fin, bad, phase
vars == <<opt, datum, fin, bad, phase>>
Init == /\ opt \in { o \in Opts : OptsOK(o) /\ (Tops = {} \/ o.top \in Tops) } /\ datum = Atom("a") /\ fin = FALSE /\ bad = FALSE /\ phase = "opt"
Choose == /\ phase = "opt" /\ phase' = "done"
          /\ \E d \in Data(Depth) : \E f \in BOOLEAN : \E b \in BOOLEAN :
               /\ Fits(d, opt) /\ ~(f /\ b)
               /\ (b => ~opt.nullable)       \* with nullable items "[a,]" is a list with an empty last item
               /\ (opt.top \in {"bare", "decls"} => d.t = "list")
               /\ (opt.top = "bare" /\ opt.nullable => ~f)     \* there a trailing delimiter is an empty item, never a final delimiter
               /\ (opt.top = "baremap" => d.t = "map")
               /\ (opt.top = "rows" => /\ d.t = "list" /\ d.es # <<>> /\ d.es[Len(d.es)].t = "atom" /\ ~f /\ ~b
                                       /\ \A i \in 1 .. Len(d.es) : d.es[i].t = "atom" \/ d.es[i] = [t |-> "list", es |-> <<>>])
               /\ datum' = d /\ fin' = f /\ bad' = b
          /\ UNCHANGED opt
(* a bad rendering really contains a forbidden final delimiter somewhere *)
IsBad == bad /\ Render(datum, opt, FALSE, TRUE) # Render(datum, opt, FALSE, FALSE)
Report == /\ phase = "done" /\ phase' = "reported" /\ UNCHANGED <<opt, datum, fin, bad>>
          /\ (Emit /\ (bad => IsBad)) =>
               PrintT(ToJson([opt |-> opt, toks |-> Render(datum, opt, fin, bad), bad |-> bad,
                              expect |-> Denote(datum)]))
Next == Choose \/ Report
Spec == Init /\ [][Next]_vars

(* sanity: a rendering without the final delimiter is never longer than one with it, and the denoted *)
(* value does not depend on the final delimiter (it never adds an element)                            *)
FinalDelimiterAddsNothing == phase = "done" =>
   Len(Render(datum, opt, FALSE, FALSE)) <= Len(Render(datum, opt, TRUE, FALSE))
=============================================================================
