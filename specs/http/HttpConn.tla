------------------------------ MODULE HttpConn ------------------------------
(***************************************************************************)
(* ak/conn_http.py + ak/mcaller_http.py: layered connections.              *)
(*                                                                         *)
(* State: every connection ever created with its effective adapter         *)
(* sequence (outermost first), every method caller with its connection and *)
(* its private cache of prefixed connections.                              *)
(* Actions (one per public call): NewConn, Wrap (one adapter or a list),   *)
(* AuthWrap, NewCaller, CloneCaller (none / one adapter / list), GetConn,  *)
(* Request.  A-spec: Expected(c, req) - the request the opener must see -  *)
(* is a function of the construction chain of c only; Stable says no       *)
(* action ever changes the chain of an existing connection.                *)
(***************************************************************************)
EXTENDS Naturals, Sequences, FiniteSets, TLC, Json

CONSTANTS MaxActions, MaxConns, Emit

(* adapters *)
Prefixes == { [k |-> "prefix", segs |-> <<"p">>, trail |-> FALSE], [k |-> "prefix", segs |-> <<"q", "r">>, trail |-> TRUE] }
Resps    == { [k |-> "resp", tag |-> "R1"], [k |-> "resp", tag |-> "R2"], [k |-> "resp", tag |-> "Z0"] }
              \* R1, R2 append their tag to the value; Z0 replaces the value by the empty list (a processor result that is falsy)
Hdrs     == { [k |-> "hdr", name |-> "X-A", val |-> "1"] }
Plain    == Prefixes \cup Resps \cup Hdrs
Auths    == { [k |-> "basic", user |-> "joe", pw |-> "s:~ ?>"], [k |-> "token", tok |-> "T0K"],
              [k |-> "client", user |-> "cid", pw |-> "s>c~?"] }
AdapterArgs == { <<a>> : a \in Plain } \cup { <<a, b>> : a \in Prefixes \cup Resps, b \in Prefixes \cup Resps }
Components == { "c1", "c2", "c0", "c3" }           \* c0 has the empty prefix (base connection itself);
                                                   \* c3 has the prefix of c1 plus a trailing slash ("/m1/")
(* <<segments, trailing slash>> *)
PrefixOf(comp) == CASE comp = "c1" -> << <<"m1">>, FALSE >> [] comp = "c2" -> << <<"m2", "v">>, FALSE >>
                    [] comp = "c3" -> << <<"m1">>, TRUE >> [] OTHER -> << <<>>, FALSE >>

VARIABLES conns,    \* Seq([ads |-> Seq(adapter), addr |-> STRING])
          callers,  \* Seq([conn |-> index, cache |-> [prefix segs -> conn index]])
          hist, nact
vars == <<conns, callers, hist, nact>>

IsAuth(a) == a.k \in {"basic", "token", "client"}
HasAuth(ads) == \E i \in 1 .. Len(ads) : IsAuth(ads[i])

(* ---------------- A-spec: what the opener must see ---------------- *)
RECURSIVE PathSegs(_, _)
(* adapters are applied outermost first, each prefix goes in front of what is there already *)
PathSegs(ads, segs) == IF ads = <<>> THEN segs
                       ELSE PathSegs(Tail(ads), IF Head(ads).k = "prefix" THEN Head(ads).segs \o segs ELSE segs)
(* the same for the RELATIVE request path "x": a prefix without trailing slash runs into the first segment *)
RECURSIVE PathRel(_, _, _)
PathRel(ads, segs, lead) ==
  IF ads = <<>> THEN segs
  ELSE LET a == Head(ads) IN
       IF a.k # "prefix" \/ a.segs = <<>> THEN PathRel(Tail(ads), segs, lead)
       ELSE IF a.trail \/ lead THEN PathRel(Tail(ads), a.segs \o segs, TRUE)
       ELSE PathRel(Tail(ads), SubSeq(a.segs, 1, Len(a.segs) - 1) \o << a.segs[Len(a.segs)] \o segs[1] >> \o Tail(segs), TRUE)
AuthOf(ads) == IF HasAuth(ads) THEN ads[CHOOSE i \in 1 .. Len(ads) : IsAuth(ads[i])] ELSE [k |-> "noauth"]
RECURSIVE RespTags(_)
(* response processors run in reverse adapter order: innermost first *)
RespTags(ads) == IF ads = <<>> THEN <<>>
                 ELSE IF Head(ads).k # "resp" THEN RespTags(Tail(ads))
                 ELSE IF Head(ads).tag = "Z0" THEN <<>>
                 ELSE RespTags(Tail(ads)) \o <<Head(ads).tag>>
(* some processor replaced the value: nothing of the original response is left in the result *)
RespCut(ads) == \E i \in 1 .. Len(ads) : ads[i].k = "resp" /\ ads[i].tag = "Z0"
ExtraHdrs(ads) == { <<ads[i].name, ads[i].val>> : i \in { j \in 1 .. Len(ads) : ads[j].k = "hdr" } }
Expected(c) == [addr |-> conns[c].addr, segs |-> PathSegs(conns[c].ads, <<"x">>), rel |-> PathRel(conns[c].ads, <<"x">>, FALSE), auth |-> AuthOf(conns[c].ads),
                resp |-> RespTags(conns[c].ads), respcut |-> RespCut(conns[c].ads), hdrs |-> ExtraHdrs(conns[c].ads)]
AllExpected(cs) == [c \in 1 .. Len(cs) |->
                      [addr |-> cs[c].addr, segs |-> PathSegs(cs[c].ads, <<"x">>), rel |-> PathRel(cs[c].ads, <<"x">>, FALSE), auth |-> AuthOf(cs[c].ads),
                       resp |-> RespTags(cs[c].ads), respcut |-> RespCut(cs[c].ads), hdrs |-> ExtraHdrs(cs[c].ads)]]

(* ---------------- actions ---------------- *)
Init == conns = <<>> /\ callers = <<>> /\ hist = <<>> /\ nact = 0
Can == nact < MaxActions
Log(rec, cs) == hist' = Append(hist, rec @@ [exp |-> AllExpected(cs)])

NewConn(addr) == /\ Can /\ Len(conns) < MaxConns
                 /\ conns' = Append(conns, [ads |-> <<>>, addr |-> addr, cls |-> "http"])
                 /\ Log([op |-> "newconn", addr |-> addr], conns')
                 /\ nact' = nact + 1 /\ UNCHANGED callers
Wrap(p, args, aslist) ==
                 /\ Can /\ Len(conns) < MaxConns /\ p \in 1 .. Len(conns)
                 /\ (Len(args) > 1 => aslist)
                 /\ conns' = Append(conns, [ads |-> args \o conns[p].ads, addr |-> conns[p].addr, cls |-> "http"])
                 /\ Log([op |-> "wrap", parent |-> p, args |-> args, aslist |-> aslist], conns')
                 /\ nact' = nact + 1 /\ UNCHANGED callers
AuthWrap(p, a) == /\ Can /\ Len(conns) < MaxConns /\ p \in 1 .. Len(conns) /\ ~HasAuth(conns[p].ads)
                  /\ conns' = Append(conns, [ads |-> <<a>> \o conns[p].ads, addr |-> conns[p].addr, cls |-> "auth"])
                  /\ Log([op |-> "authwrap", parent |-> p, auth |-> a], conns')
                  /\ nact' = nact + 1 /\ UNCHANGED callers
(* a method caller uses a plain HttpConn as it is; any other connection object (an authenticating one) is  *)
(* wrapped into a new plain connection, which copies the adapter list at that moment                         *)
NewCaller(c) == /\ Can /\ c \in 1 .. Len(conns) /\ Len(callers) < 3
                /\ IF conns[c].cls = "http"
                     THEN /\ callers' = Append(callers, [conn |-> c, cache |-> <<>>])
                          /\ Log([op |-> "newcaller", conn |-> c, wrapped |-> FALSE], conns) /\ UNCHANGED conns
                     ELSE /\ Len(conns) < MaxConns
                          /\ conns' = Append(conns, [ads |-> conns[c].ads, addr |-> conns[c].addr, cls |-> "http"])
                          /\ callers' = Append(callers, [conn |-> Len(conns) + 1, cache |-> <<>>])
                          /\ Log([op |-> "newcaller", conn |-> c, wrapped |-> TRUE], conns')
                /\ nact' = nact + 1
(* clone: a new connection wrapping the caller's connection, a new caller with an EMPTY cache *)
CloneCaller(m, args, form) ==
                /\ Can /\ m \in 1 .. Len(callers) /\ Len(conns) < MaxConns /\ Len(callers) < 3
                /\ form \in {"none", "single", "list"}
                /\ (form = "none" <=> args = <<>>) /\ (Len(args) > 1 => form = "list")
                /\ (\A i \in 1 .. Len(args) : IsAuth(args[i]) => ~HasAuth(conns[callers[m].conn].ads))
                /\ conns' = Append(conns, [ads |-> args \o conns[callers[m].conn].ads, addr |-> conns[callers[m].conn].addr, cls |-> "http"])
                /\ callers' = Append(callers, [conn |-> Len(conns) + 1, cache |-> <<>>])
                /\ Log([op |-> "clone", caller |-> m, args |-> args, form |-> form], conns')
                /\ nact' = nact + 1
(* get_conn for a component: prefixed connection, cached per caller *)
GetConn(m, comp) ==
                /\ Can /\ m \in 1 .. Len(callers)
                /\ LET pfx == PrefixOf(comp) IN
                   IF pfx[1] = <<>> \/ pfx \in DOMAIN callers[m].cache
                     THEN /\ UNCHANGED <<conns, callers>>
                          /\ Log([op |-> "getconn", caller |-> m, comp |-> comp,
                                  result |-> IF pfx[1] = <<>> THEN callers[m].conn ELSE callers[m].cache[pfx]], conns)
                     ELSE /\ Len(conns) < MaxConns
                          /\ conns' = Append(conns, [ads |-> << [k |-> "prefix", segs |-> pfx[1], trail |-> pfx[2]] >>
                                                              \o conns[callers[m].conn].ads,
                                                     addr |-> conns[callers[m].conn].addr, cls |-> "http"])
                          /\ callers' = [callers EXCEPT ![m].cache = (pfx :> (Len(conns) + 1)) @@ @]
                          /\ Log([op |-> "getconn", caller |-> m, comp |-> comp, result |-> Len(conns) + 1], conns')
                /\ nact' = nact + 1
(* add_adapter: the adapter joins the END of this connection's own effective list (as coded); the parent, and  *)
(* connections derived from this one EARLIER, are not affected; connections derived later see it             *)
AddAdapter(c, a) ==
                /\ Can /\ c \in 1 .. Len(conns) /\ (IsAuth(a) => ~HasAuth(conns[c].ads))
                /\ conns' = [conns EXCEPT ![c].ads = Append(@, a)]
                /\ Log([op |-> "addadapter", conn |-> c, adapter |-> a], conns')
                /\ nact' = nact + 1 /\ UNCHANGED callers
(* an explicit request with varied arguments (the probes after every action use fixed arguments) *)
Request(c, meth, data) ==
                /\ Can /\ c \in 1 .. Len(conns)
                /\ Log([op |-> "request", conn |-> c, method |-> meth, data |-> data], conns)
                /\ nact' = nact + 1 /\ UNCHANGED <<conns, callers>>
Report == /\ nact = MaxActions /\ nact' = nact + 1
          /\ Emit => PrintT(ToJson(hist))
          /\ UNCHANGED <<conns, callers, hist>>

Methods == {"get", "post", "put", "delete", "patch"}
DataKinds == {"none", "bytes", "str", "dict", "emptydict", "zero", "emptylist", "false", "emptystr", "emptybytes", "nonascii"}
Next == \/ \E addr \in {"http://h:1", "http://h:1/"} : NewConn(addr)
        \/ \E p \in 1 .. Len(conns) : \E args \in AdapterArgs : \E l \in BOOLEAN : Wrap(p, args, l)
        \/ \E p \in 1 .. Len(conns) : \E a \in Auths : AuthWrap(p, a)
        \/ \E c \in 1 .. Len(conns) : NewCaller(c)
        \/ \E m \in 1 .. Len(callers) : \E args \in AdapterArgs \cup {<<>>} \cup { <<a>> : a \in Auths } :
               \E f \in {"none", "single", "list"} : CloneCaller(m, args, f)
        \/ \E m \in 1 .. Len(callers) : \E comp \in Components : GetConn(m, comp)
        \/ \E c \in 1 .. Len(conns) : \E meth \in Methods : \E d \in DataKinds : Request(c, meth, d)
        \/ \E c \in 1 .. Len(conns) : \E a \in Prefixes \cup Resps \cup Hdrs : AddAdapter(c, a)
        \/ Report
Spec == Init /\ [][Next]_vars

(* ---------------- checked by TLC ---------------- *)
(* derivations never alter an existing connection *)
Stable == [][\A c \in 1 .. Len(conns) :
               conns'[c] = conns[c] \/ (Len(hist') > Len(hist) /\ hist'[Len(hist')].op = "addadapter" /\ hist'[Len(hist')].conn = c)]_vars
AtMostOneAuth == \A c \in 1 .. Len(conns) : Cardinality({ i \in 1 .. Len(conns[c].ads) : IsAuth(conns[c].ads[i]) }) <= 1
(* a caller's cached prefixed connections are built on that caller's own connection *)
(* (up to adapters added later with add_adapter, which never reach already derived connections)              *)
IsPrefixOf(s, t) == Len(s) <= Len(t) /\ SubSeq(t, 1, Len(s)) = s
CacheOwn == \A m \in 1 .. Len(callers) : \A pfx \in DOMAIN callers[m].cache :
               LET own == conns[callers[m].cache[pfx]].ads  base == conns[callers[m].conn].ads IN
                 /\ own # <<>> /\ own[1] = [k |-> "prefix", segs |-> pfx[1], trail |-> pfx[2]]
                 /\ \E n \in 0 .. Len(base) : IsPrefixOf(SubSeq(base, 1, n), Tail(own))
=============================================================================
