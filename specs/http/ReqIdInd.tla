------------------------------ MODULE ReqIdInd ------------------------------
(***************************************************************************)
(* The protocol of ReqId.tla with the history variable `sent` abstracted   *)
(* to what the safety properties need (the set of numbers that reached the *)
(* opener, and a flag that records a number handed out twice), written so  *)
(* that Apalache can discharge an INDUCTIVE invariant: safety for every    *)
(* reachable state, not only up to the depth TLC explores.                 *)
(*                                                                         *)
(*   apalache-mc check --cinit=CInit --init=Init    --inv=IndInv --length=0   *)
(*   apalache-mc check --cinit=CInit --init=IndInit --inv=IndInv --length=1   *)
(*   apalache-mc check --cinit=CInit --init=IndInit --inv=Safety --length=0   *)
(*                                                                         *)
(* TLC checks (module ReqIdRef) that ReqId implements this module under    *)
(* numbers = Numbers, dup = ~Unique, so the result transfers to ReqId.     *)
(* own / failing may be ANY disjoint sets of requests here.                *)
(***************************************************************************)
EXTENDS Integers, FiniteSets

CONSTANTS
  \* @type: Set(Int);
  Threads,
  \* @type: Int;
  Reqs,
  \* @type: Int;
  Start,
  \* @type: Int;
  MaxNum      \* Start + number of threads * Reqs (given explicitly: Apalache wants constant range bounds)

VARIABLES
  \* @type: Int;
  counter,
  \* @type: Int;
  holder,
  \* @type: Int -> Str;
  pc,
  \* @type: Int -> Int;
  nxt,
  \* @type: Int -> Int;
  tmp,
  \* @type: Int -> Int;
  done,
  \* @type: Set(Int);
  numbers,
  \* @type: Set(Int);
  lost,
  \* @type: Bool;
  dup,
  \* @type: Set(<<Int, Int>>);
  own,
  \* @type: Set(<<Int, Int>>);
  failing,
  \* @type: Set(<<Int, Int>>);
  rejected

vars == <<counter, holder, pc, nxt, tmp, done, numbers, lost, dup, own, failing, rejected>>

CInit == Threads = {1, 2, 3} /\ Reqs = 2 /\ Start = 0 /\ MaxNum = 6

Free == 0
PCs == {"check", "acquire", "readid", "readinc", "write", "release", "send"}
AllReqs == Threads \X (1 .. Reqs)
Below(c) == { n \in Start .. MaxNum : n < c }        \* Start .. (c - 1)
Cur(t) == done[t] + 1

Init == /\ counter = Start /\ holder = Free
        /\ pc = [t \in Threads |-> "check"]
        /\ nxt = [t \in Threads |-> Start] /\ tmp = [t \in Threads |-> Start]
        /\ done = [t \in Threads |-> 0]
        /\ numbers = {} /\ lost = {} /\ dup = FALSE
        /\ own \in SUBSET AllReqs
        /\ failing \in SUBSET AllReqs
        /\ own \cap failing = {}
        /\ rejected \in SUBSET AllReqs
        /\ rejected \cap (own \cup failing) = {}

Check(t) == /\ pc[t] = "check" /\ done[t] < Reqs /\ <<t, Cur(t)>> \notin rejected
            /\ pc' = [pc EXCEPT ![t] = IF <<t, Cur(t)>> \in own THEN "send" ELSE "acquire"]
            /\ UNCHANGED <<counter, holder, nxt, tmp, done, numbers, lost, dup, own, failing, rejected>>
Acquire(t) == /\ pc[t] = "acquire" /\ holder = Free
              /\ holder' = t /\ pc' = [pc EXCEPT ![t] = "readid"]
              /\ UNCHANGED <<counter, nxt, tmp, done, numbers, lost, dup, own, failing, rejected>>
ReadForId(t) == /\ pc[t] = "readid"
                /\ nxt' = [nxt EXCEPT ![t] = counter] /\ pc' = [pc EXCEPT ![t] = "readinc"]
                /\ UNCHANGED <<counter, holder, tmp, done, numbers, lost, dup, own, failing, rejected>>
ReadForInc(t) == /\ pc[t] = "readinc"
                 /\ tmp' = [tmp EXCEPT ![t] = counter] /\ pc' = [pc EXCEPT ![t] = "write"]
                 /\ UNCHANGED <<counter, holder, nxt, done, numbers, lost, dup, own, failing, rejected>>
WriteInc(t) == /\ pc[t] = "write"
               /\ counter' = tmp[t] + 1 /\ pc' = [pc EXCEPT ![t] = "release"]
               /\ UNCHANGED <<holder, nxt, tmp, done, numbers, lost, dup, own, failing, rejected>>
Release(t) == /\ pc[t] = "release" /\ holder = t
              /\ holder' = Free /\ pc' = [pc EXCEPT ![t] = "send"]
              /\ UNCHANGED <<counter, nxt, tmp, done, numbers, lost, dup, own, failing, rejected>>
Send(t) == /\ pc[t] = "send" /\ <<t, Cur(t)>> \notin failing
           /\ IF <<t, Cur(t)>> \in own
                THEN UNCHANGED <<numbers, dup>>
                ELSE /\ numbers' = numbers \cup {nxt[t]}
                     /\ dup' = (dup \/ nxt[t] \in numbers \/ nxt[t] \in lost)
           /\ done' = [done EXCEPT ![t] = @ + 1]
           /\ pc' = [pc EXCEPT ![t] = "check"]
           /\ UNCHANGED <<counter, holder, nxt, tmp, lost, own, failing, rejected>>
Fail(t) == /\ pc[t] = "send" /\ <<t, Cur(t)>> \in failing
           /\ lost' = lost \cup {nxt[t]}
           /\ dup' = (dup \/ nxt[t] \in numbers \/ nxt[t] \in lost)
           /\ done' = [done EXCEPT ![t] = @ + 1]
           /\ pc' = [pc EXCEPT ![t] = "check"]
           /\ UNCHANGED <<counter, holder, nxt, tmp, numbers, own, failing, rejected>>

Reject(t) == /\ pc[t] = "check" /\ done[t] < Reqs /\ <<t, Cur(t)>> \in rejected
             /\ done' = [done EXCEPT ![t] = @ + 1]
             /\ UNCHANGED <<counter, holder, pc, nxt, tmp, numbers, lost, dup, own, failing, rejected>>

Step(t) == Reject(t) \/ Fail(t) \/ Check(t) \/ Acquire(t) \/ ReadForId(t) \/ ReadForInc(t) \/ WriteInc(t) \/ Release(t) \/ Send(t)
Next == \E t \in Threads : Step(t)
Spec == Init /\ [][Next]_vars

(* ---------------- the inductive invariant ---------------- *)
InCS(t) == pc[t] \in {"readid", "readinc", "write", "release"}
InFlight(t) == pc[t] = "release" \/ (pc[t] = "send" /\ <<t, Cur(t)>> \notin own)
Flying == { nxt[t] : t \in { u \in Threads : InFlight(u) } }

TypeOK == /\ counter \in Start .. MaxNum
          /\ holder \in Threads \cup {Free}
          /\ pc \in [Threads -> PCs]
          /\ nxt \in [Threads -> Start .. MaxNum]
          /\ tmp \in [Threads -> Start .. MaxNum]
          /\ done \in [Threads -> 0 .. Reqs]
          /\ numbers \in SUBSET (Start .. MaxNum)
          /\ lost \in SUBSET (Start .. MaxNum)
          /\ dup \in BOOLEAN
          /\ own \in SUBSET AllReqs
          /\ failing \in SUBSET AllReqs
          /\ rejected \in SUBSET AllReqs

IndInv ==
  /\ TypeOK
  /\ own \cap failing = {}
  /\ rejected \cap (own \cup failing) = {}
  /\ \A t \in Threads : pc[t] # "check" => <<t, Cur(t)>> \notin rejected
  /\ ~dup
  /\ \A t \in Threads : InCS(t) => holder = t
  /\ holder # Free => InCS(holder)
  /\ \A t \in Threads : pc[t] # "check" => done[t] < Reqs
  /\ \A t \in Threads : pc[t] \in {"acquire", "readid", "readinc", "write", "release"} => <<t, Cur(t)>> \notin own
  /\ \A t \in Threads : pc[t] = "send" /\ <<t, Cur(t)>> \in failing => <<t, Cur(t)>> \notin own
  /\ \A t \in Threads : pc[t] = "readinc" => nxt[t] = counter
  /\ \A t \in Threads : pc[t] = "write" => nxt[t] = counter /\ tmp[t] = counter
  /\ \A t \in Threads : pc[t] = "release" => nxt[t] + 1 = counter
  /\ \A t, u \in Threads : (t # u /\ InFlight(t) /\ InFlight(u)) => nxt[t] # nxt[u]
  /\ Flying \cap (numbers \cup lost) = {}
  /\ numbers \cap lost = {}
  /\ Flying \cup numbers \cup lost = Below(counter)
  (* the counter cannot run away: every number that was handed out belongs to a different completed request *)
  /\ Cardinality(numbers \cup lost) = Cardinality({ r \in AllReqs \ (own \cup rejected) : r[2] <= done[r[1]] })

IndInit == IndInv

(* ---------------- what it gives ---------------- *)
Quiescent == \A t \in Threads : done[t] = Reqs
Safety == /\ ~dup                                              \* no number handed out twice (Unique)
          /\ numbers \cap lost = {}
          /\ Quiescent => numbers \cup lost = Below(counter)      \* no gaps (GapFree)
          /\ \A t \in Threads : InCS(t) => holder = t                  \* MutualExclusion
=============================================================================
