----------------------------- MODULE ReqIdJudge -----------------------------
(***************************************************************************)
(* Trace validation of executions recorded from the real code under the    *)
(* deterministic scheduler (harness/sched.py).  One case = one execution:  *)
(*  [threads |-> n, reqs |-> k, own |-> <<<<t, r>>, ...>>,                  *)
(*   fail |-> <<<<t, r>>, ...>>, start |-> value of the counter at the beginning,  *)
(*   ev |-> << [t, k |-> "load"|"store"|"acq"|"rel"|"send"|"fail", v] >>]   *)
(* A-verdict (property C16): the ids that reached the opener.              *)
(* I-verdict (conformance): the event sequence is a behaviour of ReqId.    *)
(***************************************************************************)
EXTENDS Naturals, Integers, Sequences, FiniteSets, TLC, Json, IOUtils
Cases == ndJsonDeserialize(IOEnv.CASES)
CONSTANTS NT, Reqs                  \* all cases of one judge run use NT threads x Reqs requests
VARIABLES tid, l, counter, holder, pc, nxt, tmp, done, sent, own, failing, lost, rejected, verdict
vars == <<tid, l, counter, holder, pc, nxt, tmp, done, sent, own, failing, lost, rejected, verdict>>
C == Cases[tid]
Threads == 1 .. NT
R == INSTANCE ReqId WITH OwnChoices <- {{}}, FailChoices <- {{}}, RejectChoices <- {{}}, Start <- 0
OwnId == own

Init == /\ tid \in 1 .. Len(Cases) /\ l = 1 /\ verdict = "run"
        /\ counter = Cases[tid].start /\ holder = 0
        /\ pc = [t \in Threads |-> "check"]
        /\ nxt = [t \in Threads |-> 0] /\ tmp = [t \in Threads |-> 0]
        /\ done = [t \in Threads |-> 0] /\ sent = <<>>
        /\ own = { <<Cases[tid].own[i][1], Cases[tid].own[i][2]>> : i \in 1 .. Len(Cases[tid].own) }
        /\ failing = { <<Cases[tid].fail[i][1], Cases[tid].fail[i][2]>> : i \in 1 .. Len(Cases[tid].fail) }
        /\ lost = {}
        /\ rejected = { <<Cases[tid].rej[i][1], Cases[tid].rej[i][2]>> : i \in 1 .. Len(Cases[tid].rej) }

E == C.ev[l]
IsEvent(k) == verdict = "run" /\ l <= Len(C.ev) /\ E.k = k /\ l' = l + 1 /\ UNCHANGED <<tid, verdict>>
(* a logged load is whichever of the three loads the thread is at; the logged value must be the counter *)
TLoad  == IsEvent("load") /\ E.v = counter /\ (R!Check(E.t) \/ R!ReadForId(E.t) \/ R!ReadForInc(E.t))
TStore == IsEvent("store") /\ R!WriteInc(E.t) /\ counter' = E.v
TAcq   == IsEvent("acq") /\ R!Acquire(E.t)
TRel   == IsEvent("rel") /\ R!Release(E.t)
TFail  == IsEvent("fail") /\ R!Fail(E.t)
TRej   == IsEvent("reject") /\ R!Reject(E.t)
TSend  == IsEvent("send") /\ R!Send(E.t) /\ (~(<<E.t, done[E.t] + 1>> \in OwnId) => E.v = nxt[E.t])

(* the A-spec on what reached the opener, evaluated once on the whole trace *)
Sends == SelectSeq(C.ev, LAMBDA e : e.k = "send")
Gen == SelectSeq(Sends, LAMBDA e : e.v >= 0)              \* v = -1: caller supplied id sent unchanged, -2: altered
NFail == Len(SelectSeq(C.ev, LAMBDA e : e.k = "fail"))  \* requests that failed after their number was handed out
AOK == /\ \A i, j \in 1 .. Len(Gen) : i # j => Gen[i].v # Gen[j].v
       /\ { Gen[i].v : i \in 1 .. Len(Gen) } \subseteq C.start .. (C.start + Len(Gen) + NFail - 1)   \* no gaps but the lost numbers
       /\ \A i \in 1 .. Len(Sends) : Sends[i].v # -2
       /\ NFail = Len(C.fail)
       /\ Len(Gen) = NT * Reqs - Len(C.own) - NFail - Len(C.rej)        \* a refused request consumes nothing

Finish == /\ verdict = "run" /\ (l > Len(C.ev) \/ ~ENABLED (TLoad \/ TStore \/ TAcq \/ TRel \/ TSend \/ TFail \/ TRej))
          /\ verdict' = IF ~AOK THEN "REJECT-IDS" ELSE IF l <= Len(C.ev) THEN "DRIFT" ELSE "ACCEPT"
          /\ PrintT(<<verdict', tid, l>>)
          /\ UNCHANGED <<tid, l, counter, holder, pc, nxt, tmp, done, sent, own, failing, lost, rejected>>
Next == TLoad \/ TStore \/ TAcq \/ TRel \/ TSend \/ TFail \/ TRej \/ Finish
Spec == Init /\ [][Next]_vars
=============================================================================
