-------------------------------- MODULE ReqId --------------------------------
(***************************************************************************)
(* ak/conn_http.py: X-Request-ID sequence numbers of one underlying        *)
(* connection (_HttpConnImpl) used by several threads, possibly through    *)
(* different derived connection objects.                                   *)
(*                                                                         *)
(* One action per shared-memory access of do_request / _generate_request_id*)
(*   Check      if self._cur_req_id is not None        (load)              *)
(*   Acquire    with self._reqid_generator_guard:                          *)
(*   ReadForId  next_req_id = self._cur_req_id         (load)              *)
(*   ReadForInc self._cur_req_id += 1                  (load)              *)
(*   WriteInc                                          (store)             *)
(*   Release                                                               *)
(*   Send       the request reaches the opener with its id                 *)
(* A request whose caller supplied an id goes Check -> Send and never      *)
(* touches the counter.  A request whose body cannot be serialised takes   *)
(* its number and then fails (Fail instead of Send): the number stays      *)
(* handed out - it is lost, never handed out again.                        *)
(***************************************************************************)
EXTENDS Naturals, Sequences, FiniteSets, TLC

CONSTANTS Threads,    \* set of thread ids (naturals)
          Reqs,       \* requests per thread
          OwnChoices, \* set of possible values of own (each a set of <<thread, request number>> pairs)
          FailChoices,\* set of possible values of failing (requests that fail after taking a number)
          RejectChoices, \* set of possible values of rejected
          Start       \* value of the counter at the beginning (0 for a new connection; a connection that has
                      \* already served Start requests otherwise)

VARIABLES counter, holder, pc, nxt, tmp, done, sent,
          own,        \* the requests that carry a caller supplied id (fixed during a behaviour)
          failing,    \* the requests that fail between taking a number and reaching the opener (fixed)
          lost,       \* numbers handed out to requests that failed
          rejected    \* the requests that are refused before anything happens (bad arguments): they take no number (fixed)
vars == <<counter, holder, pc, nxt, tmp, done, sent, own, failing, lost, rejected>>
OwnId == own
Free == 0

(* standard choices used by the model checking configurations *)
OwnChoicesStd == { {}, { <<1, 1>> }, { <<1, 2>>, <<2, 1>> } }
FailChoicesStd == { {}, { <<1, 1>> }, { <<2, 1>> } }
RejectChoicesStd == { {}, { <<2, 2>> } }

Init == /\ counter = Start /\ holder = Free
        /\ pc = [t \in Threads |-> "check"]
        /\ nxt = [t \in Threads |-> Start] /\ tmp = [t \in Threads |-> Start]
        /\ done = [t \in Threads |-> 0]
        /\ sent = <<>>                      \* sequence of [t, own, n]
        /\ own \in OwnChoices
        /\ failing \in { f \in FailChoices : f \cap own = {} } /\ lost = {}
        /\ rejected \in { r \in RejectChoices : r \cap own = {} /\ r \cap failing = {} }

Cur(t) == done[t] + 1
Check(t) == /\ pc[t] = "check" /\ done[t] < Reqs /\ <<t, Cur(t)>> \notin rejected
            /\ pc' = [pc EXCEPT ![t] = IF <<t, Cur(t)>> \in OwnId THEN "send" ELSE "acquire"]
            /\ UNCHANGED <<counter, holder, nxt, tmp, done, sent, own, failing, lost, rejected>>
Acquire(t) == /\ pc[t] = "acquire" /\ holder = Free
              /\ holder' = t /\ pc' = [pc EXCEPT ![t] = "readid"]
              /\ UNCHANGED <<counter, nxt, tmp, done, sent, own, failing, lost, rejected>>
ReadForId(t) == /\ pc[t] = "readid"
                /\ nxt' = [nxt EXCEPT ![t] = counter] /\ pc' = [pc EXCEPT ![t] = "readinc"]
                /\ UNCHANGED <<counter, holder, tmp, done, sent, own, failing, lost, rejected>>
ReadForInc(t) == /\ pc[t] = "readinc"
                 /\ tmp' = [tmp EXCEPT ![t] = counter] /\ pc' = [pc EXCEPT ![t] = "write"]
                 /\ UNCHANGED <<counter, holder, nxt, done, sent, own, failing, lost, rejected>>
WriteInc(t) == /\ pc[t] = "write"
               /\ counter' = tmp[t] + 1 /\ pc' = [pc EXCEPT ![t] = "release"]
               /\ UNCHANGED <<holder, nxt, tmp, done, sent, own, failing, lost, rejected>>
Release(t) == /\ pc[t] = "release" /\ holder = t
              /\ holder' = Free /\ pc' = [pc EXCEPT ![t] = "send"]
              /\ UNCHANGED <<counter, nxt, tmp, done, sent, own, failing, lost, rejected>>
Send(t) == /\ pc[t] = "send" /\ <<t, Cur(t)>> \notin failing
           /\ sent' = Append(sent, [t |-> t, own |-> <<t, Cur(t)>> \in OwnId, n |-> nxt[t]])
           /\ done' = [done EXCEPT ![t] = @ + 1]
           /\ pc' = [pc EXCEPT ![t] = "check"]
           /\ UNCHANGED <<counter, holder, nxt, tmp, own, failing, lost, rejected>>

Fail(t) == /\ pc[t] = "send" /\ <<t, Cur(t)>> \in failing
           /\ lost' = lost \cup {nxt[t]}
           /\ done' = [done EXCEPT ![t] = @ + 1]
           /\ pc' = [pc EXCEPT ![t] = "check"]
           /\ UNCHANGED <<counter, holder, nxt, tmp, sent, own, failing, rejected>>

(* a request with unusable arguments is refused before an id is generated: nothing is consumed *)
Reject(t) == /\ pc[t] = "check" /\ done[t] < Reqs /\ <<t, Cur(t)>> \in rejected
             /\ done' = [done EXCEPT ![t] = @ + 1]
             /\ UNCHANGED <<counter, holder, pc, nxt, tmp, sent, own, failing, lost, rejected>>

Step(t) == Reject(t) \/ Fail(t) \/ Check(t) \/ Acquire(t) \/ ReadForId(t) \/ ReadForInc(t) \/ WriteInc(t) \/ Release(t) \/ Send(t)
Next == \E t \in Threads : Step(t)
Spec == Init /\ [][Next]_vars /\ \A t \in Threads : WF_vars(Step(t))

(* ---------------- properties ---------------- *)
Generated == SelectSeq(sent, LAMBDA s : ~s.own)
Numbers == { Generated[i].n : i \in 1 .. Len(Generated) }
Unique == \A i, j \in 1 .. Len(Generated) : i # j => Generated[i].n # Generated[j].n
Quiescent == \A t \in Threads : done[t] = Reqs
GapFree == Quiescent => /\ Numbers \cup lost = Start .. (Start + Len(Generated) + Cardinality(lost) - 1)
                        /\ Numbers \cap lost = {}
(* numbers are handed out without gaps at any time: the ones already sent plus the ones in flight *)
CounterCounts == counter >= Start + Len(Generated) + Cardinality(lost)
MutualExclusion == \A t \in Threads : pc[t] \in {"readid", "readinc", "write", "release"} => holder = t
AllDone == <>Quiescent
=============================================================================
