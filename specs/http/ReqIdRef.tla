------------------------------ MODULE ReqIdRef ------------------------------
(***************************************************************************)
(* ReqId implements ReqIdInd (the abstraction for which Apalache proves an *)
(* inductive invariant) under the refinement mapping                       *)
(*   numbers <- Numbers (numbers of the generated ids sent so far)         *)
(*   dup     <- ~Unique                                                    *)
(* TLC checks the property Abs!Spec for the bounded instances, so Safety   *)
(* of ReqIdInd carries over to Unique / GapFree / MutualExclusion of ReqId.*)
(***************************************************************************)
EXTENDS ReqId
Abs == INSTANCE ReqIdInd WITH MaxNum <- Start + Cardinality(Threads) * Reqs, numbers <- Numbers, dup <- ~Unique
Refines == Abs!Spec
AbsSafety == Abs!Safety
AbsIndInv == Abs!IndInv
=============================================================================
