------------------------------ MODULE ShortUuid ------------------------------
(***************************************************************************)
(* ak/short_uuid.py: a UUID number n < Max is written as exactly L digits  *)
(* in base Base, least significant digit first, padded with digit 0.       *)
(*                                                                         *)
(* A-spec: Val / ValidStr / the bijection statements.                      *)
(* I-spec: the two digit loops as coded (EncStep/EncPad, DecCheck/DecStep/ *)
(* DecFinish), one action per loop iteration.                              *)
(* Case builder: one initial state per number and per candidate string     *)
(* (all strings of length <= L+1 over the alphabet plus one foreign        *)
(* character); the terminal action prints the case with the expected       *)
(* observation so that the driver can replay it on the real functions.     *)
(***************************************************************************)
EXTENDS Naturals, Sequences, FiniteSets, TLC, Json

CONSTANTS Base, L, Max, Emit

ASSUME Base \in Nat /\ L \in Nat /\ Max \in Nat /\ Base > 1

RECURSIVE Pow(_, _)
Pow(b, e) == IF e = 0 THEN 1 ELSE b * Pow(b, e - 1)
ASSUME Pow(Base, L) >= Max          \* L digits are enough

Digits  == 0 .. (Base - 1)
Foreign == Base                     \* any character outside the alphabet
Chars   == Digits \cup {Foreign}

RECURSIVE Val(_)
Val(s) == IF s = <<>> THEN 0 ELSE Head(s) + Base * Val(Tail(s))

AllDigits(s) == \A i \in 1 .. Len(s) : s[i] \in Digits
ValidStr(s)  == Len(s) = L /\ AllDigits(s) /\ Val(s) < Max

Strings == UNION { [1 .. n -> Chars] : n \in 0 .. (L + 1) }

(* ---- the property, stated without the algorithm ---- *)
EncOK(n, s) == ValidStr(s) /\ Val(s) = n
DecOK(s, r) == IF ValidStr(s) THEN r = [ok |-> TRUE, n |-> Val(s)]
                              ELSE r = [ok |-> FALSE, n |-> 0]    \* ValueError

(* ---- I-spec ---- *)
VARIABLES mode,   \* "enc" | "dec"
          inp,    \* the number or the string
          num, out, idx, pc, res
vars == <<mode, inp, num, out, idx, pc, res>>

Init ==
  \/ /\ mode = "enc" /\ inp \in 0 .. (Max - 1)
     /\ num = inp /\ out = <<>> /\ idx = 0 /\ pc = "loop" /\ res = [ok |-> TRUE, n |-> 0]
  \/ /\ mode = "dec" /\ inp \in Strings
     /\ num = 0 /\ out = <<>> /\ idx = 0 /\ pc = "check" /\ res = [ok |-> TRUE, n |-> 0]

EncStep == /\ mode = "enc" /\ pc = "loop" /\ num # 0
           /\ num' = num \div Base
           /\ out' = Append(out, num % Base)
           /\ UNCHANGED <<mode, inp, idx, pc, res>>

EncPad  == /\ mode = "enc" /\ pc = "loop" /\ num = 0
           /\ out' = out \o [i \in 1 .. (IF Len(out) < L THEN L - Len(out) ELSE 0) |-> 0]
           /\ pc' = "done"
           /\ UNCHANGED <<mode, inp, num, idx, res>>

DecCheck == /\ mode = "dec" /\ pc = "check"
            /\ IF Len(inp) # L
                 THEN pc' = "done" /\ res' = [ok |-> FALSE, n |-> 0] /\ idx' = idx
                 ELSE pc' = "loop" /\ idx' = L /\ res' = res
            /\ UNCHANGED <<mode, inp, num, out>>

DecStep == /\ mode = "dec" /\ pc = "loop" /\ idx > 0
           /\ IF inp[idx] = Foreign
                THEN pc' = "done" /\ res' = [ok |-> FALSE, n |-> 0] /\ UNCHANGED <<num, idx>>
                ELSE num' = num * Base + inp[idx] /\ idx' = idx - 1 /\ UNCHANGED <<pc, res>>
           /\ UNCHANGED <<mode, inp, out>>

DecFinish == /\ mode = "dec" /\ pc = "loop" /\ idx = 0
             /\ pc' = "done"
             /\ res' = IF num < Max THEN [ok |-> TRUE, n |-> num] ELSE [ok |-> FALSE, n |-> 0]
             /\ UNCHANGED <<mode, inp, num, out, idx>>

Report == /\ pc = "done"
          /\ pc' = "reported"
          /\ Emit => PrintT(ToJson([mode |-> mode, inp |-> inp, out |-> out,
                                    ok |-> res.ok, n |-> res.n]))
          /\ UNCHANGED <<mode, inp, num, out, idx, res>>

Next == EncStep \/ EncPad \/ DecCheck \/ DecStep \/ DecFinish \/ Report
Spec == Init /\ [][Next]_vars /\ WF_vars(Next)

(* ---- checked by TLC ---- *)
EncCorrect == (mode = "enc" /\ pc \in {"done", "reported"}) => EncOK(inp, out)
DecCorrect == (mode = "dec" /\ pc \in {"done", "reported"}) => DecOK(inp, res)
LoopInv    == (mode = "enc" /\ pc = "loop") => inp = Val(out) + Pow(Base, Len(out)) * num
DecLoopInv == (mode = "dec" /\ pc = "loop") => num = Val(SubSeq(inp, idx + 1, L))
(* injectivity / round trip, evaluated once over the whole (small) domain *)
RoundTrip == \A s \in [1 .. L -> Digits] : Val(s) < Max =>
                \A t \in [1 .. L -> Digits] : (Val(t) = Val(s)) => t = s
Terminates == <>(pc = "reported")
=============================================================================
