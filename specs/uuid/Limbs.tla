-------------------------------- MODULE Limbs --------------------------------
(***************************************************************************)
(* Natural numbers as little-endian sequences of limbs in base LB, with    *)
(* the two operations the short-uuid loops need: divmod by a small number  *)
(* and multiply-add.  TLC integers are 32 bit, 128-bit UUID numbers are    *)
(* represented this way (LB = 65536).  LimbsCheck.tla checks these         *)
(* operators against Naturals for a small limb base.                       *)
(***************************************************************************)
EXTENDS Naturals, Sequences

CONSTANT LB

RECURSIVE LVal(_)
LVal(x) == IF x = <<>> THEN 0 ELSE Head(x) + LB * LVal(Tail(x))

IsZero(x) == \A i \in 1 .. Len(x) : x[i] = 0

(* divide by small d: returns [q |-> limbs, r |-> remainder]; long division from the top limb *)
RECURSIVE DivAux(_, _, _, _)
DivAux(x, d, i, rem) ==
  IF i = 0 THEN [q |-> <<>>, r |-> rem]
  ELSE LET cur  == rem * LB + x[i]
           rest == DivAux(x, d, i - 1, cur % d)
       IN [q |-> Append(rest.q, cur \div d), r |-> rest.r]
DivMod(x, d) == DivAux(x, d, Len(x), 0)

(* x * m + a, same number of limbs plus the final carry *)
RECURSIVE MulAux(_, _, _, _)
MulAux(x, m, i, carry) ==
  IF i > Len(x) THEN [v |-> <<>>, c |-> carry]
  ELSE LET cur  == x[i] * m + carry
           rest == MulAux(x, m, i + 1, cur \div LB)
       IN [v |-> <<cur % LB>> \o rest.v, c |-> rest.c]
MulAdd(x, m, a) == MulAux(x, m, 1, a)

(* x < y for equal-length limb sequences *)
RECURSIVE LessAux(_, _, _)
LessAux(x, y, i) == IF i = 0 THEN FALSE
                    ELSE IF x[i] # y[i] THEN x[i] < y[i] ELSE LessAux(x, y, i - 1)
Less(x, y) == LessAux(x, y, Len(x))
=============================================================================
