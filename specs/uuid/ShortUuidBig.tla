---------------------------- MODULE ShortUuidBig ----------------------------
(***************************************************************************)
(* The digit loops of ShortUuid over limb numbers, with the real constants *)
(* (Base 57, L 22, Max 2^128 = 8 limbs of 16 bits).  Used as a trace judge: *)
(* every case recorded from the real functions is one initial state; the   *)
(* loop actions are the same as in ShortUuid; the terminal action compares *)
(* the observation and prints the verdict.                                 *)
(*   case = [kind |-> "enc", limbs |-> <<8 limbs>>, out |-> <<digits>>]     *)
(*        | [kind |-> "dec", str |-> <<digit or 99>>, outc |-> STRING,       *)
(*           limbs |-> <<8 limbs>>]                                          *)
(***************************************************************************)
EXTENDS Naturals, Sequences, TLC, Json, IOUtils

Base == 57
L    == 22
LB   == 65536
NL   == 8            \* limbs of a UUID number
INSTANCE Limbs

Cases == ndJsonDeserialize(IOEnv.CASES)

VARIABLES tid, num, out, idx, pc, ok
vars == <<tid, num, out, idx, pc, ok>>

C == Cases[tid]
Zero(n) == [i \in 1 .. n |-> 0]

Init == /\ tid \in 1 .. Len(Cases)
        /\ out = <<>> /\ ok = TRUE
        /\ IF Cases[tid].kind = "enc"
             THEN num = Cases[tid].limbs /\ pc = "loop" /\ idx = 0
             ELSE num = Zero(NL + 1) /\ pc = "check" /\ idx = 0

EncStep == /\ C.kind = "enc" /\ pc = "loop" /\ ~IsZero(num)
           /\ LET r == DivMod(num, Base) IN num' = r.q /\ out' = Append(out, r.r)
           /\ UNCHANGED <<tid, idx, pc, ok>>

EncPad  == /\ C.kind = "enc" /\ pc = "loop" /\ IsZero(num)
           /\ out' = out \o [i \in 1 .. (IF Len(out) < L THEN L - Len(out) ELSE 0) |-> 0]
           /\ pc' = "done"
           /\ UNCHANGED <<tid, num, idx, ok>>

DecCheck == /\ C.kind = "dec" /\ pc = "check"
            /\ IF Len(C.str) # L
                 THEN pc' = "done" /\ ok' = FALSE /\ idx' = idx
                 ELSE pc' = "loop" /\ idx' = L /\ ok' = ok
            /\ UNCHANGED <<tid, num, out>>

DecStep == /\ C.kind = "dec" /\ pc = "loop" /\ idx > 0
           /\ IF C.str[idx] >= Base
                THEN pc' = "done" /\ ok' = FALSE /\ UNCHANGED <<num, idx>>
                ELSE /\ LET r == MulAdd(num, Base, C.str[idx]) IN
                          num' = r.v     \* 9 limbs hold 57^22 < 2^144, carry is always 0
                     /\ idx' = idx - 1 /\ UNCHANGED <<pc, ok>>
           /\ UNCHANGED <<tid, out>>

DecFinish == /\ C.kind = "dec" /\ pc = "loop" /\ idx = 0
             /\ pc' = "done"
             /\ ok' = (num[NL + 1] = 0)        \* < 2^128
             /\ UNCHANGED <<tid, num, out, idx>>

Accepts == IF C.kind = "enc" THEN out = C.out
           ELSE /\ C.outc = (IF ok THEN "ok" ELSE "ValueError")
                /\ ok => SubSeq(num, 1, NL) = C.limbs

Judge == /\ pc = "done" /\ pc' = "judged"
         /\ PrintT(<<IF Accepts THEN "ACCEPT" ELSE "REJECT", tid>>)
         /\ UNCHANGED <<tid, num, out, idx, ok>>

Next == EncStep \/ EncPad \/ DecCheck \/ DecStep \/ DecFinish \/ Judge
Spec == Init /\ [][Next]_vars

(* sanity of the model itself on every judged case: the encoding has L digits below Base *)
Shape == (C.kind = "enc" /\ pc \in {"done", "judged"}) =>
            Len(out) = L /\ \A i \in 1 .. L : out[i] < Base
=============================================================================
