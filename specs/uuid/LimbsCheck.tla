----------------------------- MODULE LimbsCheck -----------------------------
(* Exhaustive check of Limbs against Naturals for a small limb base. *)
EXTENDS Naturals, Sequences, TLC
CONSTANTS LB, N, D
INSTANCE Limbs
VARIABLES x, step
Nums == [1 .. N -> 0 .. (LB - 1)]
Init == x \in Nums /\ step = 0
Next == step = 0 /\ step' = 1 /\ x' = x
DivOK == \A d \in 2 .. D :
           LET r == DivMod(x, d) IN
             /\ Len(r.q) = N
             /\ LVal(r.q) = LVal(x) \div d
             /\ r.r = LVal(x) % d
MulOK == \A m \in 2 .. D : \A a \in 0 .. (m - 1) :
           LET r == MulAdd(x, m, a) IN
             /\ Len(r.v) = N
             /\ LVal(r.v) + r.c * (LB ^ N) = LVal(x) * m + a
LessOK == \A y \in Nums : Less(x, y) <=> (LVal(x) < LVal(y))
=============================================================================
