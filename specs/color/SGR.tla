--------------------------------- MODULE SGR ---------------------------------
(***************************************************************************)
(* Terminal model for the escape sequences of ak/color.py.                 *)
(*                                                                         *)
(* Requested(cfg): the terminal state a ColorFmt configuration asks for    *)
(* (or "ValueError" for an invalid colour value).                          *)
(* Acceptor: a terminal starting in the default state is fed the items of  *)
(* str(x) one by one (FeedSgr / FeedChar); every visible character must be *)
(* shown in exactly the state requested for its chunk, the terminal must   *)
(* be back in the default state at the end, no stray escape may occur.     *)
(* Builder (SGRCases.cfg): enumerates colour specifications and effects.   *)
(***************************************************************************)
EXTENDS Naturals, Integers, Sequences, FiniteSets, TLC

NoCol == [k |-> "none", v |-> 0]
Name(n) == [k |-> "name", v |-> n]
Idx(n)  == [k |-> "idx", v |-> n]
Bad     == [k |-> "bad", v |-> 0]
EffNames == {"bold", "faint", "underline", "blink", "crossed"}
EffCode(e) == CASE e = "bold" -> 1 [] e = "faint" -> 2 [] e = "underline" -> 4
                [] e = "blink" -> 5 [] e = "crossed" -> 9
Default == [fg |-> NoCol, bg |-> NoCol, eff |-> {}]
BadSt   == [fg |-> Bad, bg |-> Bad, eff |-> {}]      \* result of an unknown SGR parameter

(* colour specification -> terminal colour, or Bad (the constructor must raise ValueError)   *)
(*  [t |-> "none"] | [t |-> "name", n |-> 0..7 or 8 (unknown name)] | [t |-> "int", v]        *)
(*  | [t |-> "rgb", r, g, b] | [t |-> "gray", n]                                              *)
(*  | [t |-> "bool", v |-> 0 | 1]  (False / True: integers in range(256), hence codes 0 / 1)  *)
(*  | [t |-> "rgbl", r, g, b]      (the triple given as a list)                               *)
(*  | [t |-> "float", v] | [t |-> "obj"]  (7.0, a dict: invalid values)                       *)
(*  | [t |-> "badstr", i]  (a string that is no colour value: "g5x", "g1.5", "red", "12a", ...)  *)
Resolve(c) ==
  CASE c.t = "none" -> NoCol
    [] c.t = "name" -> IF c.n \in 0 .. 7 THEN Name(c.n) ELSE Bad
    [] c.t = "int"  -> IF c.v \in 0 .. 255 THEN Idx(c.v) ELSE Bad
    [] c.t = "rgb"  -> IF c.r \in 0 .. 5 /\ c.g \in 0 .. 5 /\ c.b \in 0 .. 5
                         THEN Idx(16 + 36 * c.r + 6 * c.g + c.b) ELSE Bad
    [] c.t = "gray" -> IF c.n \in 0 .. 23 THEN Idx(232 + c.n) ELSE Bad
    [] c.t = "bool" -> Idx(c.v)
    [] c.t = "rgbl" -> IF c.r \in 0 .. 5 /\ c.g \in 0 .. 5 /\ c.b \in 0 .. 5
                         THEN Idx(16 + 36 * c.r + 6 * c.g + c.b) ELSE Bad
    [] c.t \in {"float", "obj", "badstr"} -> Bad

(* cfg = [fg, bg, eff (set of effect names), nocolor] *)
Valid(cfg) == cfg.nocolor \/ (Resolve(cfg.fg) # Bad /\ Resolve(cfg.bg) # Bad)
Requested(cfg) == IF cfg.nocolor THEN Default
                  ELSE [fg |-> Resolve(cfg.fg), bg |-> Resolve(cfg.bg), eff |-> cfg.eff]

(* one SGR parameter (sequence of colon separated numbers) applied to a terminal state *)
ApplyParam(st, q) ==
  IF st = BadSt THEN BadSt
  ELSE IF Len(q) = 1 THEN
         LET n == q[1] IN
         IF n = 0 THEN Default
         ELSE IF \E e \in EffNames : EffCode(e) = n
              THEN [st EXCEPT !.eff = @ \cup { CHOOSE e \in EffNames : EffCode(e) = n }]
         ELSE IF n \in 30 .. 37 THEN [st EXCEPT !.fg = Name(n - 30)]
         ELSE IF n \in 40 .. 47 THEN [st EXCEPT !.bg = Name(n - 40)]
         ELSE IF n = 39 THEN [st EXCEPT !.fg = NoCol]
         ELSE IF n = 49 THEN [st EXCEPT !.bg = NoCol]
         ELSE BadSt
  ELSE IF Len(q) = 3 /\ q[2] = 5 /\ q[3] \in 0 .. 255 /\ q[1] = 38 THEN [st EXCEPT !.fg = Idx(q[3])]
  ELSE IF Len(q) = 3 /\ q[2] = 5 /\ q[3] \in 0 .. 255 /\ q[1] = 48 THEN [st EXCEPT !.bg = Idx(q[3])]
  ELSE BadSt
RECURSIVE ApplySgr(_, _)
ApplySgr(st, ps) == IF ps = <<>> THEN st ELSE ApplySgr(ApplyParam(st, Head(ps)), Tail(ps))
=============================================================================
