---------------------------- MODULE ColorsConfig ----------------------------
(***************************************************************************)
(* ak/color.py: ColorsConfig - syntax colours resolved by inheritance.     *)
(*                                                                         *)
(* Case builder: a description is chosen for every id (Describe), a subset *)
(* goes into the initial configuration (Config), the rest is registered    *)
(* later in any batching and order (Register), either directly             *)
(* (add_new_items) or by obtaining a palette whose class declares the      *)
(* batch as SYNTAX_DEFAULTS.  A batch may re-declare an id that is already *)
(* known with another description (must be ignored: first wins).           *)
(* A-spec: Resolve(D, id) over the descriptions known so far.              *)
(* I-spec: syntax_map with resolved flags and stored values, add_new_items *)
(* with its resolution loop, per-config palette cache with its reset rule. *)
(***************************************************************************)
EXTENDS Naturals, Integers, Sequences, FiniteSets, TLC, Json

CONSTANTS NumIds,      \* ids IdSeq[1..NumIds]
          Pools,       \* "small" | "full": which description pools are used
          Emit

(* <<fg, bg>>: "" inherit/default, "-" terminal default, or a colour name *)
ColorPool == IF Pools = "small"
               THEN { <<"", "">>, <<"RED", "">>, <<"-", "-">> }
               ELSE { <<"", "">>, <<"RED", "">>, <<"-", "">>, <<"", "BLUE">>, <<"-", "-">>, <<"g23", "(5,0,5)">>, <<"0", "0">> }
(* [bold |-> -1|0|1, ul |-> -1|1]   (-1 = not mentioned, 0 = no_bold) *)
ModPool == IF Pools = "small"
             THEN { [bold |-> -1, ul |-> -1], [bold |-> 0, ul |-> 1] }
             ELSE { [bold |-> -1, ul |-> -1], [bold |-> 1, ul |-> -1], [bold |-> 0, ul |-> 1] }

IdSeq   == << "G.S.B", "S", "G.A", "H" >>   \* nested 3 and 2 levels deep in the dict form; "S" is one character that occurs in another id
Ids     == { IdSeq[i] : i \in 1 .. NumIds }
Builtin == "NAME"                    \* BUILT_IN_CONFIG: "NAME": "GREEN:bold"
Unknown == "U"                       \* never registered
BuiltinVal == [fg |-> "GREEN", bg |-> "none", bold |-> 1, ul |-> -1]
NoParent == ""

(* -------- A-spec -------- *)
Norm(c) == IF c = "" \/ c = "-" THEN "none" ELSE c
Over(own, inherited) == IF own = -1 THEN inherited ELSE own
(* D: function from known ids to descriptions [p, c, m] *)
RECURSIVE Resolvable(_, _)
Resolvable(D, i) ==
  IF i = Builtin THEN TRUE
  ELSE IF i \notin DOMAIN D THEN FALSE
  ELSE D[i].p = NoParent \/ Resolvable(D, D[i].p)
RECURSIVE Resolve(_, _)
Resolve(D, i) ==
  IF i = Builtin THEN BuiltinVal
  ELSE LET d == D[i] IN
       IF d.p = NoParent
         THEN [fg |-> Norm(d.c[1]), bg |-> Norm(d.c[2]), bold |-> d.m.bold, ul |-> d.m.ul]
         ELSE LET pv == Resolve(D, d.p) IN
              [fg |-> IF d.c[1] = "" THEN pv.fg ELSE Norm(d.c[1]),
               bg |-> IF d.c[2] = "" THEN pv.bg ELSE Norm(d.c[2]),
               bold |-> Over(d.m.bold, pv.bold), ul |-> Over(d.m.ul, pv.ul)]
Plain == [fg |-> "none", bg |-> "none", bold |-> -1, ul |-> -1]
TextVal(tc) == IF tc THEN [fg |-> "CYAN", bg |-> "none", bold |-> -1, ul |-> 1] ELSE Plain
(* what get_color(id)(text) must look like: an id that is registered but whose chain reaches an  *)
(* unknown id stays uncoloured; an id nobody registered is drawn like ordinary TEXT               *)
Shown(D, i) == IF i \in DOMAIN D /\ Resolvable(D, i) THEN Resolve(D, i) ELSE Plain
ShownT(D, i, tc) == IF i \in DOMAIN D THEN Shown(D, i) ELSE TextVal(tc)

(* -------- state -------- *)
VARIABLES descr,   \* chosen description of every id (the "final set")
          nd,      \* ids described so far
          smap,    \* I-state: known id -> [d, res, v]
          cache,   \* I-state: palette classes (batch numbers) with a cached palette -> snapshot id -> value
          npal,    \* palette classes created
          textc,   \* TRUE: the explicit configuration colours the default syntax TEXT ("CYAN:underline")
          hist, phase
vars == <<descr, nd, smap, cache, npal, textc, hist, phase>>

ParentsOf(i) == ({NoParent, Builtin, Unknown} \cup Ids) \ {i}
RECURSIVE Chain(_, _, _)
Chain(dm, i, n) == IF n = 0 THEN TRUE      \* TRUE = too long = cyclic
                   ELSE IF i \notin DOMAIN dm THEN FALSE
                   ELSE IF dm[i].p \in Ids THEN Chain(dm, dm[i].p, n - 1) ELSE FALSE
Cyclic(dm) == \E i \in DOMAIN dm : Chain(dm, i, NumIds + 1)

Init == /\ descr = <<>> /\ nd = 0 /\ smap = <<>> /\ cache = <<>> /\ npal = 0
        /\ hist = <<>> /\ phase = "describe" /\ textc = FALSE

Describe ==
  /\ phase = "describe" /\ nd < NumIds
  /\ \E p \in ParentsOf(IdSeq[nd + 1]) : \E c \in ColorPool : \E m \in ModPool :
       LET dm == (IdSeq[nd + 1] :> [p |-> p, c |-> c, m |-> m]) @@ descr IN
         /\ ~Cyclic(dm)
         /\ descr' = dm
  /\ nd' = nd + 1
  /\ UNCHANGED <<smap, cache, npal, textc, hist, phase>>

(* ---- I-spec: add_new_items ---- *)
KnownD(sm) == [i \in DOMAIN sm |-> sm[i].d]
ParentResolved(sm, i) == sm[i].d.p = Builtin \/ (sm[i].d.p \in DOMAIN sm /\ sm[sm[i].d.p].res)
ResolveOne(sm, i) ==
  LET d  == sm[i].d
      pv == IF d.p = Builtin THEN BuiltinVal ELSE sm[d.p].v IN
  [fg |-> IF d.c[1] = "" THEN pv.fg ELSE Norm(d.c[1]),
   bg |-> IF d.c[2] = "" THEN pv.bg ELSE Norm(d.c[2]),
   bold |-> Over(d.m.bold, pv.bold), ul |-> Over(d.m.ul, pv.ul)]
RECURSIVE ResolveLoop(_)
ResolveLoop(sm) ==
  LET ready == { i \in DOMAIN sm : ~sm[i].res /\ ParentResolved(sm, i) } IN
  IF ready = {} THEN sm
  ELSE ResolveLoop([i \in DOMAIN sm |-> IF i \in ready THEN [sm[i] EXCEPT !.res = TRUE, !.v = ResolveOne(sm, i)]
                                       ELSE sm[i]])
(* batch: function id -> description; ids already known are skipped (first registration wins) *)
NewEntry(d) == IF d.p = NoParent
                 THEN [d |-> d, res |-> TRUE,
                       v |-> [fg |-> Norm(d.c[1]), bg |-> Norm(d.c[2]), bold |-> d.m.bold, ul |-> d.m.ul]]
                 ELSE [d |-> d, res |-> FALSE, v |-> Plain]
AddNewItems(sm, batch) ==
  ResolveLoop([i \in (DOMAIN sm \cup DOMAIN batch) |-> IF i \in DOMAIN sm THEN sm[i] ELSE NewEntry(batch[i])])
HasNewId(sm, batch) == \E i \in DOMAIN batch : i \notin DOMAIN sm

AltDescr == [p |-> NoParent, c |-> <<"CYAN", "">>, m |-> [bold |-> -1, ul |-> -1]]
Expect(sm, tc) == [i \in Ids \cup {Unknown} |-> ShownT(KnownD(sm), i, tc)]
Pending(sm) == { i \in DOMAIN sm : ~sm[i].res }

Config ==
  /\ phase = "describe" /\ nd = NumIds
  /\ \E S \in SUBSET Ids : \E tc \in BOOLEAN :
       LET batch == [i \in S |-> descr[i]]
           sm    == AddNewItems(<<>>, batch) IN
         /\ smap' = sm /\ textc' = tc
         /\ hist' = << [kind |-> "config", batch |-> batch, text |-> tc, exp |-> Expect(sm, tc), pending |-> Pending(sm)] >>
  /\ phase' = "register"
  /\ UNCHANGED <<descr, nd, cache, npal>>

Register(kind, conflict) ==
  /\ phase = "register"
  /\ \E S \in (SUBSET (Ids \ DOMAIN smap)) \ {{}} :
       LET known == DOMAIN smap
           extra == IF conflict /\ known # {} THEN { CHOOSE i \in known : TRUE } ELSE {}
           batch == [i \in S \cup extra |-> IF i \in S THEN descr[i] ELSE AltDescr]
           sm    == AddNewItems(smap, batch)
           c1    == IF HasNewId(smap, batch) THEN <<>> ELSE cache      \* cache reset rule
       IN /\ smap' = sm
          /\ IF kind = "palette"
               THEN /\ npal' = npal + 1
                    /\ cache' = ((npal + 1) :> [i \in DOMAIN batch |-> Shown(KnownD(sm), i)]) @@ c1
               ELSE npal' = npal /\ cache' = c1
          /\ hist' = Append(hist, [kind |-> kind, batch |-> batch, exp |-> Expect(sm, textc), pending |-> Pending(sm)])
  /\ UNCHANGED <<descr, nd, textc, phase>>

Finish == /\ phase = "register" /\ DOMAIN smap = Ids /\ phase' = "done"
          /\ Emit => PrintT(ToJson(hist))
          /\ UNCHANGED <<descr, nd, smap, cache, npal, textc, hist>>

Next == Describe \/ Config \/ Finish
        \/ \E k \in {"direct", "palette"} : \E cf \in BOOLEAN : Register(k, cf)
Spec == Init /\ [][Next]_vars

(* -------- checked by TLC -------- *)
(* the incremental implementation state equals the declarative resolution of what is known so far *)
ImplMatchesSpec ==
  \A i \in DOMAIN smap :
     /\ smap[i].res <=> Resolvable(KnownD(smap), i)
     /\ smap[i].res => smap[i].v = Resolve(KnownD(smap), i)
(* first registration wins, and what is known is always a restriction of the chosen final set *)
KnownIsFinal == \A i \in DOMAIN smap : smap[i].d = descr[i]
(* order independence: once everything is registered the result is Resolve over the final set *)
OrderIndependent == phase = "done" => \A i \in Ids : Shown(KnownD(smap), i) = Shown(descr, i)
(* a cached palette is never stale *)
CacheCoherent == \A c \in DOMAIN cache : \A i \in DOMAIN cache[c] : cache[c][i] = Shown(KnownD(smap), i)
=============================================================================
