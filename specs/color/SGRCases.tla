------------------------------ MODULE SGRCases ------------------------------
(* Builder of ColorFmt configurations: one action per constructor argument.                  *)
(* Sweep = "fg": every foreground specification with no background, "bg": the reverse,         *)
(* "cross": representative foregrounds x backgrounds x ALL 32 effect combinations.             *)
EXTENDS SGR, Json
CONSTANTS Sweep, Emit
VARIABLES cfg, step
vars == <<cfg, step>>

AllSpecs == { [t |-> "none"] } \cup { [t |-> "name", n |-> n] : n \in 0 .. 8 }
            \cup { [t |-> "int", v |-> v] : v \in -1 .. 256 }
            \cup { [t |-> "rgb", r |-> r, g |-> g, b |-> b] : r \in -1 .. 6, g \in -1 .. 6, b \in -1 .. 6 }
            \cup { [t |-> "gray", n |-> n] : n \in -1 .. 25 }
            \cup { [t |-> "bool", v |-> v] : v \in 0 .. 1 } \cup { [t |-> "float", v |-> v] : v \in {1, 7, 300} } \cup { [t |-> "obj"] }
            \cup { [t |-> "rgbl", r |-> r, g |-> g, b |-> b] : r \in {-1, 0, 5}, g \in {0, 6}, b \in {2, 5} }
            \cup { [t |-> "badstr", i |-> i] : i \in 1 .. 8 }
Repr == { [t |-> "none"], [t |-> "name", n |-> 0], [t |-> "name", n |-> 7], [t |-> "name", n |-> 8],
          [t |-> "int", v |-> 0], [t |-> "int", v |-> 255], [t |-> "int", v |-> 256], [t |-> "int", v |-> -1],
          [t |-> "rgb", r |-> 0, g |-> 0, b |-> 0], [t |-> "rgb", r |-> 5, g |-> 5, b |-> 5],
          [t |-> "rgb", r |-> 1, g |-> 2, b |-> 3], [t |-> "rgb", r |-> 6, g |-> 0, b |-> 0],
          [t |-> "gray", n |-> 0], [t |-> "gray", n |-> 23], [t |-> "gray", n |-> 24],
          [t |-> "bool", v |-> 1], [t |-> "rgbl", r |-> 1, g |-> 2, b |-> 3], [t |-> "float", v |-> 7] }
FewEff == { {} , EffNames } \cup { {e} : e \in EffNames }

FgChoices == IF Sweep = "fg" THEN AllSpecs ELSE IF Sweep = "bg" THEN { [t |-> "none"] } ELSE Repr
BgChoices == IF Sweep = "bg" THEN AllSpecs ELSE IF Sweep = "fg" THEN { [t |-> "none"] } ELSE Repr
EffChoices == IF Sweep = "cross" THEN SUBSET EffNames ELSE FewEff

Init == cfg = [fg |-> [t |-> "none"], bg |-> [t |-> "none"], eff |-> {}, nocolor |-> FALSE] /\ step = 0
ChooseFg == step = 0 /\ step' = 1 /\ \E c \in FgChoices : cfg' = [cfg EXCEPT !.fg = c]
ChooseBg == step = 1 /\ step' = 2 /\ \E c \in BgChoices : cfg' = [cfg EXCEPT !.bg = c]
ChooseEff == step = 2 /\ step' = 3 /\ \E e \in EffChoices : cfg' = [cfg EXCEPT !.eff = e]
ChooseNoColor == step = 3 /\ step' = 4 /\ \E n \in BOOLEAN : cfg' = [cfg EXCEPT !.nocolor = n]
Report == /\ step = 4 /\ step' = 5 /\ UNCHANGED cfg
          /\ Emit => PrintT(ToJson([cfg |-> cfg, valid |-> Valid(cfg),
                                    req |-> IF Valid(cfg) THEN Requested(cfg) ELSE Default]))
Next == ChooseFg \/ ChooseBg \/ ChooseEff \/ ChooseNoColor \/ Report
Spec == Init /\ [][Next]_vars

(* sanity: the sequence the model itself would emit for a valid configuration drives the terminal *)
(* to the requested state and the reset brings it back                                           *)
ColParam(c, base) == IF c.k = "name" THEN << <<base + c.v>> >>
                     ELSE IF c.k = "idx" THEN << <<base + 8, 5, c.v>> >> ELSE <<>>
RECURSIVE EffParams(_)
EffParams(es) == IF es = {} THEN <<>>
                 ELSE LET e == CHOOSE x \in es : TRUE IN << <<EffCode(e)>> >> \o EffParams(es \ {e})
ModelPrefix(r) == ColParam(r.fg, 30) \o ColParam(r.bg, 40) \o EffParams(r.eff)
SelfConsistent == (step >= 4 /\ Valid(cfg)) =>
   /\ ApplySgr(Default, ModelPrefix(Requested(cfg))) = Requested(cfg)
   /\ ApplySgr(Requested(cfg), << <<0>> >>) = Default
=============================================================================
