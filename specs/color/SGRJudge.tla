------------------------------ MODULE SGRJudge ------------------------------
(***************************************************************************)
(* Trace judge: one initial state per recorded case                        *)
(*  [chunks |-> << [cfg, text |-> <<code points>>] >>,                      *)
(*   items  |-> << [t |-> "ch", c] | [t |-> "sgr", p |-> <<params>>] | [t |-> "esc"] >>,  *)
(*   stripped |-> <<code points>>]      (strip_colors(str(x)))              *)
(* The terminal is fed item by item.                                       *)
(***************************************************************************)
EXTENDS SGR, Json, IOUtils
Cases == ndJsonDeserialize(IOEnv.CASES)
VARIABLES tid, pos, st, k, j, verdict
vars == <<tid, pos, st, k, j, verdict>>
C == Cases[tid]

(* JSON arrays of effect names -> sets *)
Cfg(c) == [fg |-> c.fg, bg |-> c.bg, eff |-> { c.eff[i] : i \in 1 .. Len(c.eff) }, nocolor |-> c.nocolor]
(* skip chunks with empty text *)
RECURSIVE NextChunk(_, _)
NextChunk(c, n) == IF n <= Len(c.chunks) /\ c.chunks[n].text = <<>> THEN NextChunk(c, n + 1) ELSE n

Init == /\ tid \in 1 .. Len(Cases) /\ pos = 1 /\ st = Default
        /\ k = NextChunk(Cases[tid], 1) /\ j = 1 /\ verdict = "run"

Reject(why) == verdict' = why /\ UNCHANGED <<tid, pos, st, k, j>> /\ PrintT(<<"REJECT", tid, why>>)

FeedSgr == /\ verdict = "run" /\ pos <= Len(C.items) /\ C.items[pos].t = "sgr"
           /\ LET n == ApplySgr(st, C.items[pos].p) IN
                IF n = BadSt THEN Reject("unknown-sgr-parameter")
                ELSE st' = n /\ pos' = pos + 1 /\ UNCHANGED <<tid, k, j, verdict>>
FeedEsc == /\ verdict = "run" /\ pos <= Len(C.items) /\ C.items[pos].t = "esc"
           /\ Reject("stray-escape")
FeedChar == /\ verdict = "run" /\ pos <= Len(C.items) /\ C.items[pos].t = "ch"
            /\ IF k > Len(C.chunks) THEN Reject("extra-character")
               ELSE IF C.items[pos].c # C.chunks[k].text[j] THEN Reject("wrong-character")
               ELSE IF st # Requested(Cfg(C.chunks[k].cfg)) THEN Reject("wrong-colour-or-effects")
               ELSE /\ pos' = pos + 1
                    /\ IF j < Len(C.chunks[k].text) THEN j' = j + 1 /\ k' = k
                       ELSE j' = 1 /\ k' = NextChunk(C, k + 1)
                    /\ UNCHANGED <<tid, st, verdict>>
Finish == /\ verdict = "run" /\ pos > Len(C.items)
          /\ IF k <= Len(C.chunks) THEN Reject("missing-characters")
             ELSE IF st # Default THEN Reject("not-back-in-default-state")
             ELSE IF C.stripped # [i \in 1 .. Len(C.plain) |-> C.plain[i]] THEN Reject("strip-colors-differs")
             ELSE /\ verdict' = "ACCEPT" /\ PrintT(<<"ACCEPT", tid>>) /\ UNCHANGED <<tid, pos, st, k, j>>
Next == FeedSgr \/ FeedEsc \/ FeedChar \/ Finish
Spec == Init /\ [][Next]_vars
=============================================================================
