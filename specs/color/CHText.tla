------------------------------- MODULE CHText -------------------------------
(***************************************************************************)
(* ak/color.py: CHText = list of mono-coloured chunks.                     *)
(*                                                                         *)
(* A-spec: a text is a sequence of <<character, colour>> pairs and every   *)
(* public operation is the plain-str operation lifted pointwise.           *)
(* I-spec: the chunk list with the append rule (_append_chunk: drop an     *)
(* empty chunk, merge with a last chunk of the same colour) and the index/ *)
(* slice arithmetic over chunks.  Both are stepped by the same operation;  *)
(* Refines (flatten(I) = A) and RepInv are invariants.                     *)
(* Two registers hold texts; operations act on register 1, Save/Swap move  *)
(* texts between registers so that text+text, join with text items and     *)
(* "equal however assembled" are reachable.  hist records the operations   *)
(* with the expected abstract result of each, for replay on real objects.  *)
(***************************************************************************)
EXTENDS Naturals, Integers, Sequences, TLC, Json

CONSTANTS MaxText,   \* longest text kept in a register
          MaxOps,    \* operations per emitted history
          B,         \* index / slice bounds range over -B .. B (and None for slices)
          TrackHist, \* TRUE: histories of MaxOps operations are recorded (replay); FALSE: plain state
                     \* exploration of the register contents up to MaxText (model checking)
          Emit

None == 99
Cols == 0 .. 2                       \* 0 = default colour
SpaceCh == " "

StrPool   == { <<>>, <<"a">>, <<"a", "b">> }
ChunkPool == { [col |-> c, s |-> s] : c \in Cols, s \in { <<>>, <<"b">> } }
Operands  == { [k |-> "str", s |-> s] : s \in StrPool }
             \cup { [k |-> "chunk", col |-> c.col, s |-> c.s] : c \in ChunkPool }
             \cup { [k |-> "reg", r |-> r] : r \in 1 .. 2 }
OpSeqs(n) == UNION { [1 .. m -> Operands] : m \in 0 .. n }

VARIABLES regA,   \* <<text1, text2>>   abstract: Seq(<<ch, col>>)
          regI,   \* <<chunks1, chunks2>> implementation: Seq([col, s])
          hist, phase
vars == <<regA, regI, hist, phase>>

(* ---------------- abstract (string-like) operations ---------------- *)
Min(a, b) == IF a < b THEN a ELSE b
Max(a, b) == IF a > b THEN a ELSE b
Paint(s, c) == [i \in 1 .. Len(s) |-> <<s[i], c>>]
OpndA(o) == CASE o.k = "str" -> Paint(o.s, 0)
              [] o.k = "chunk" -> Paint(o.s, o.col)
              [] o.k = "reg" -> regA[o.r]
RECURSIVE CatA(_)
CatA(os) == IF os = <<>> THEN <<>> ELSE OpndA(Head(os)) \o CatA(Tail(os))
RECURSIVE JoinA(_, _)
JoinA(sep, os) == IF os = <<>> THEN <<>>
                  ELSE IF Len(os) = 1 THEN OpndA(os[1])
                  ELSE OpndA(Head(os)) \o sep \o JoinA(sep, Tail(os))
(* Python slice semantics *)
Clamp(i, n, dflt) == IF i = None THEN dflt ELSE IF i < 0 THEN Max(0, n + i) ELSE Min(i, n)
SliceA(a, i, j) == SubSeq(a, Clamp(i, Len(a), 0) + 1, Clamp(j, Len(a), Len(a)))
IndexOK(a, i) == IF i < 0 THEN Len(a) + i >= 0 ELSE i < Len(a)
IndexA(a, i) == << a[(IF i < 0 THEN Len(a) + i ELSE i) + 1] >>
FixedA(a, n) == IF n <= Len(a) THEN SubSeq(a, 1, n)
                ELSE a \o [i \in 1 .. (n - Len(a)) |-> <<SpaceCh, 0>>]
(* format with [[fill]align][width]: fill characters have the default colour *)
FormatA(a, fill, align, width) ==
  LET pad == Max(width - Len(a), 0)
      F(n) == [i \in 1 .. n |-> <<fill, 0>>]
  IN CASE align = "<" -> a \o F(pad)
       [] align = ">" -> F(pad) \o a
       [] align = "^" -> F(pad \div 2) \o a \o F(pad - pad \div 2)

(* ---------------- implementation (chunk list) operations ---------------- *)
AppendChunk(cs, c) ==
  IF c.s = <<>> THEN cs
  ELSE IF cs # <<>> /\ cs[Len(cs)].col = c.col
       THEN [cs EXCEPT ![Len(cs)] = [col |-> c.col, s |-> @.s \o c.s]]
       ELSE cs \o <<c>>
RECURSIVE AppendAll(_, _)
AppendAll(cs, more) == IF more = <<>> THEN cs ELSE AppendAll(AppendChunk(cs, Head(more)), Tail(more))
OpndI(o) == CASE o.k = "str" -> << [col |-> 0, s |-> o.s] >>
              [] o.k = "chunk" -> << [col |-> o.col, s |-> o.s] >>
              [] o.k = "reg" -> regI[o.r]
RECURSIVE CatI(_, _)
CatI(acc, os) == IF os = <<>> THEN acc ELSE CatI(AppendAll(acc, OpndI(Head(os))), Tail(os))
RECURSIVE JoinI(_, _, _, _)
JoinI(acc, sep, os, first) ==
  IF os = <<>> THEN acc
  ELSE JoinI(AppendAll(IF first THEN acc ELSE AppendAll(acc, sep), OpndI(Head(os))), sep, Tail(os), FALSE)
RECURSIVE LenI(_)
LenI(cs) == IF cs = <<>> THEN 0 ELSE Len(Head(cs).s) + LenI(Tail(cs))
RECURSIVE Flatten(_)
Flatten(cs) == IF cs = <<>> THEN <<>> ELSE Paint(Head(cs).s, Head(cs).col) \o Flatten(Tail(cs))
(* offset of chunk k (characters before it) *)
RECURSIVE Off(_, _)
Off(cs, k) == IF k = 1 THEN 0 ELSE Off(cs, k - 1) + Len(cs[k - 1].s)
(* cut [lo, hi) (0-based character positions) out of the chunk list, chunk by chunk *)
CutI(cs, lo, hi) ==
  AppendAll(<<>>, [k \in 1 .. Len(cs) |->
       [col |-> cs[k].col,
        s |-> SubSeq(cs[k].s, Max(1, lo - Off(cs, k) + 1), Min(Len(cs[k].s), hi - Off(cs, k)))]])
SliceI(cs, i, j) ==
  LET n  == LenI(cs)
      lo == IF i = None THEN 0 ELSE IF i < 0 THEN Max(0, n + i) ELSE i
      hi == IF j = None THEN n ELSE IF j < 0 THEN Max(0, n + j) ELSE j
  IN IF hi - lo <= 0 \/ lo >= n THEN <<>> ELSE CutI(cs, lo, Min(hi, n))
IndexI(cs, i) == LET p == IF i < 0 THEN LenI(cs) + i ELSE i IN CutI(cs, p, p + 1)
FixedI(cs, n) == IF n < LenI(cs) THEN SliceI(cs, None, n)
                 ELSE IF n > LenI(cs) THEN AppendAll(cs, << [col |-> 0, s |-> [i \in 1 .. (n - LenI(cs)) |-> SpaceCh]] >>)
                 ELSE cs

(* ---------------- the machine ---------------- *)
Init == /\ regA = << <<>>, <<>> >> /\ regI = << <<>>, <<>> >> /\ hist = <<>> /\ phase = "run"

Room(a) == Len(a) <= MaxText
More    == phase = "run" /\ (TrackHist => Len(hist) < MaxOps)
Rec(r)  == IF TrackHist THEN Append(hist, r) ELSE hist
Step(newA, newI, rec) ==
  /\ More /\ Room(newA)
  /\ regA' = [regA EXCEPT ![1] = newA]
  /\ regI' = [regI EXCEPT ![1] = newI]
  /\ hist' = Rec(rec @@ [exp |-> newA, chunks |-> newI])
  /\ UNCHANGED phase

New(os)   == Step(CatA(os), CatI(<<>>, os), [op |-> "new", args |-> os])
Add(o)    == Step(regA[1] \o OpndA(o), AppendAll(regI[1], OpndI(o)), [op |-> "add", args |-> <<o>>])
IAdd(o)   == Step(regA[1] \o OpndA(o), AppendAll(regI[1], OpndI(o)), [op |-> "iadd", args |-> <<o>>])
RAdd(o)   == /\ o.k # "reg"
             /\ Step(OpndA(o) \o regA[1], AppendAll(AppendAll(<<>>, OpndI(o)), regI[1]), [op |-> "radd", args |-> <<o>>])
Join(os)  == Step(JoinA(regA[1], os), JoinI(<<>>, regI[1], os, TRUE), [op |-> "join", args |-> os])
Index(i)  == IF IndexOK(regA[1], i)
               THEN Step(IndexA(regA[1], i), IndexI(regI[1], i), [op |-> "index", i |-> i])
               ELSE /\ More
                    /\ hist' = Rec([op |-> "index", i |-> i, exp |-> "IndexError", chunks |-> regI[1]])
                    /\ UNCHANGED <<regA, regI, phase>>
Slice(i, j) == Step(SliceA(regA[1], i, j), SliceI(regI[1], i, j), [op |-> "slice", i |-> i, j |-> j])
Fixed(n)  == Step(FixedA(regA[1], n), FixedI(regI[1], n), [op |-> "fixed_len", n |-> n])
Format(fill, align, width) ==
  /\ More
  /\ hist' = Rec([op |-> "format", fill |-> fill, align |-> align, width |-> width,
                           exp |-> FormatA(regA[1], fill, align, width), chunks |-> regI[1]])
  /\ UNCHANGED <<regA, regI, phase>>
Save == /\ More
        /\ regA' = [regA EXCEPT ![2] = regA[1]] /\ regI' = [regI EXCEPT ![2] = regI[1]]
        /\ hist' = Rec([op |-> "save", exp |-> regA[1], chunks |-> regI[1]])
        /\ UNCHANGED phase
Swap == /\ More
        /\ regA' = <<regA[2], regA[1]>> /\ regI' = <<regI[2], regI[1]>>
        /\ hist' = Rec([op |-> "swap", exp |-> regA[2], chunks |-> regI[2]])
        /\ UNCHANGED phase
Report == /\ phase = "run" /\ TrackHist /\ Len(hist) = MaxOps /\ phase' = "reported"
          /\ Emit => PrintT(ToJson(hist))
          /\ UNCHANGED <<regA, regI, hist>>

Bounds == (-B .. B) \cup {None}
Next == \/ \E os \in OpSeqs(2) : New(os) \/ Join(os)
        \/ \E o \in Operands : Add(o) \/ IAdd(o) \/ RAdd(o)
        \/ \E i \in -B .. B : Index(i)
        \/ \E i \in Bounds : \E j \in Bounds : Slice(i, j)
        \/ \E n \in 0 .. (B + 1) : Fixed(n)
        \/ \E f \in {" ", "_"} : \E al \in {"<", ">", "^"} : \E w \in {0, 3, 6} : Format(f, al, w)
        \/ Save \/ Swap \/ Report
Spec == Init /\ [][Next]_vars

(* ---------------- checked by TLC ---------------- *)
RepInv(cs) == /\ \A k \in 1 .. Len(cs) : cs[k].s # <<>>
              /\ \A k \in 1 .. (Len(cs) - 1) : cs[k].col # cs[k + 1].col
Refines == \A r \in 1 .. 2 : Flatten(regI[r]) = regA[r] /\ RepInv(regI[r]) /\ LenI(regI[r]) = Len(regA[r])
(* "equal however assembled": equal visible texts have equal chunk lists *)
Canonical == (regA[1] = regA[2]) <=> (regI[1] = regI[2])
=============================================================================
