------------------------------- MODULE HDocStr -------------------------------
(***************************************************************************)
(* ak/hdoc.py, _ParsedDocStr: how a doc string is split into the short     *)
(* description, the body and the hashtags - growth item beyond the listed  *)
(* properties (the help text of C10's "help" object is made of it).        *)
(*                                                                         *)
(* A doc string is a sequence of lines; a line is [ind, k]: ind leading    *)
(* spaces followed by                                                       *)
(*   "sp"    nothing (ind = 0: the empty line; ind > 0: spaces only)        *)
(*   "text"  a word                                                        *)
(*   "tags"  "#tNa #tNb"  (N = number of the line in the doc string)        *)
(*   "bad"   "#tNa word"  (a hashtag line with a chunk that is no hashtag)  *)
(* I-spec: Parse = the steps of __init__ in order (drop blank first / last  *)
(* line, dedent by the smallest positive indentation, short description,   *)
(* blank line after it, trailing hashtag lines, trailing empty lines).      *)
(* A-level facts checked by TLC on every doc string of the family:          *)
(*   TagsInSourceOrder, BodyTrimmed, NothingLost, DedentIsUniform.          *)
(* Builder: every doc string with its parse is printed (spec -> code).      *)
(***************************************************************************)
EXTENDS Naturals, Sequences, FiniteSets, TLC, Json

CONSTANTS MaxLines, Inds, Emit

Kinds == {"sp", "text", "tags", "bad"}
Line(i, k, n) == [ind |-> i, k |-> k, n |-> n]      \* n: original line number (identifies text and tags)
Blank(l) == l.k = "sp"                              \* not line.strip()
Empty(l) == l.k = "sp" /\ l.ind = 0                 \* not line
StartsWithHash(l) == l.k \in {"tags", "bad"} /\ l.ind = 0

DropFirst(ls) == IF ls # <<>> /\ Blank(ls[1]) THEN Tail(ls) ELSE ls
DropLast(ls) == IF ls # <<>> /\ Blank(ls[Len(ls)]) THEN SubSeq(ls, 1, Len(ls) - 1) ELSE ls
MinPos(S) == CHOOSE m \in S : \A x \in S : m <= x
MinLead(ls) == LET pos == { ls[i].ind : i \in 1 .. Len(ls) } \ {0} IN IF pos = {} THEN 0 ELSE MinPos(pos)
Dedent(ls) == LET m == MinLead(ls) IN
              [i \in 1 .. Len(ls) |-> IF ls[i].ind >= m THEN [ls[i] EXCEPT !.ind = @ - m] ELSE ls[i]]

RECURSIVE TagSplit(_)
(* <<rest, hashtag lines in source order>> *)
TagSplit(ls) == IF ls # <<>> /\ StartsWithHash(ls[Len(ls)])
                  THEN LET r == TagSplit(SubSeq(ls, 1, Len(ls) - 1)) IN <<r[1], Append(r[2], ls[Len(ls)])>>
                  ELSE <<ls, <<>>>>
RECURSIVE TrimEnd(_)
TrimEnd(ls) == IF ls # <<>> /\ Empty(ls[Len(ls)]) THEN TrimEnd(SubSeq(ls, 1, Len(ls) - 1)) ELSE ls
RECURSIVE FlatTags(_)
FlatTags(hs) == IF hs = <<>> THEN <<>> ELSE << <<hs[1].n, "a">>, <<hs[1].n, "b">> >> \o FlatTags(Tail(hs))

Parse(doc) ==
  LET l1 == Dedent(DropLast(DropFirst(doc)))
      hasShort == l1 # <<>>
      l2 == IF hasShort THEN Tail(l1) ELSE l1
      l3 == IF hasShort /\ l2 # <<>> /\ Empty(l2[1]) THEN Tail(l2) ELSE l2
      ts == TagSplit(l3)
      bad == \E i \in 1 .. Len(ts[2]) : ts[2][i].k = "bad" IN
  [short |-> IF hasShort THEN <<l1[1]>> ELSE <<>>,          \* <<>> = the placeholder "-??-"
   body  |-> TrimEnd(ts[1]),
   tags  |-> IF bad THEN <<>> ELSE FlatTags(ts[2]),
   error |-> bad]

VARIABLES doc, done
vars == <<doc, done>>
Lines == { [ind |-> i, k |-> k] : i \in Inds, k \in Kinds }
Init == /\ \E n \in 0 .. MaxLines : \E f \in [1 .. n -> Lines] : doc = [i \in 1 .. n |-> Line(f[i].ind, f[i].k, i)]
        /\ done = FALSE
Report == /\ ~done /\ done' = TRUE /\ UNCHANGED doc
          /\ Emit => PrintT(ToJson([doc |-> doc, parse |-> Parse(doc)]))
Next == Report
Spec == Init /\ [][Next]_vars

P == Parse(doc)
(* hashtags come out in the order in which they are written *)
TagsInSourceOrder == \A i, j \in 1 .. Len(P.tags) : i < j => P.tags[i][1] <= P.tags[j][1]
(* the body does not end with an empty line (a '#' line that is separated from the trailing hashtag lines by an    *)
(* empty line stays in the body: only the LAST lines starting with '#' are hashtag lines)                        *)
BodyTrimmed == P.body # <<>> => ~Empty(P.body[Len(P.body)])
(* every line that holds something is the short description, a body line or a hashtag line - exactly once *)
NothingLost == ~P.error =>
   \A i \in 1 .. Len(doc) : doc[i].k # "sp" =>
      Cardinality({ j \in 1 .. Len(P.short) : P.short[j].n = i } ) +
      Cardinality({ j \in 1 .. Len(P.body) : P.body[j].n = i }) +
      (IF \E j \in 1 .. Len(P.tags) : P.tags[j][1] = i THEN 1 ELSE 0) = 1
(* relative indentation of the lines that are at least as deep as the shallowest indented line is kept *)
DedentIsUniform ==
   \A i, j \in 1 .. Len(P.body) :
      LET a == P.body[i]  b == P.body[j] IN
      (doc[a.n].ind >= MinLead(DropLast(DropFirst(doc))) /\ doc[b.n].ind >= MinLead(DropLast(DropFirst(doc))))
         => (doc[a.n].ind - doc[b.n].ind = a.ind - b.ind \/ doc[b.n].ind - doc[a.n].ind = b.ind - a.ind)
=============================================================================
