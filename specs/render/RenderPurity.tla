----------------------------- MODULE RenderPurity -----------------------------
(***************************************************************************)
(* Rendering has no memory (C10).                                          *)
(*                                                                         *)
(* Histories: NewConf, DropConf, SetGlobal, Render.  Colour configurations *)
(* are heap objects; a dropped configuration's address (and the addresses  *)
(* of the palettes it owned) can be re-used by later objects.              *)
(* I-spec (PaletteCaches): palettes are cached per configuration object;   *)
(* the enum cell cache of a field type is keyed by the palette.  With      *)
(* Purge = FALSE the key is the bare identity (id(palette)) and entries    *)
(* survive the palette - TLC refutes Pure (finding F-C10); with Purge =    *)
(* TRUE (weak keys, the repaired code) entries die with the palette.       *)
(* A-spec: the output of a Render event is a function of (object kind,     *)
(* content of the configuration in force, no_color) only.                  *)
(***************************************************************************)
EXTENDS Naturals, Sequences, FiniteSets, TLC, Json
CONSTANTS NAddr, NSlots, MaxActions, Purge, Emit, Kinds

Contents == 1 .. 2
Free == [k |-> "free", c |-> 0]
VARIABLES heap, slot, confPal, enumCache, global, lastOut, lastWant, hist, n
vars == <<heap, slot, confPal, enumCache, global, lastOut, lastWant, hist, n>>

FreeAddrs == { a \in 1 .. NAddr : heap[a].k = "free" }
MinFree == CHOOSE a \in FreeAddrs : \A b \in FreeAddrs : a <= b
Init == /\ heap = [a \in 1 .. NAddr |-> Free] /\ slot = [s \in 1 .. NSlots |-> 0]
        /\ confPal = [a \in 1 .. NAddr |-> 0] /\ enumCache = <<>> /\ global = 0
        /\ lastOut = 0 /\ lastWant = 0 /\ hist = <<>> /\ n = 0
Can == n < MaxActions
Log(r) == hist' = Append(hist, r) /\ n' = n + 1

NewConf(s, c, nc) ==
  /\ Can /\ slot[s] = 0 /\ FreeAddrs # {}
  /\ heap' = [heap EXCEPT ![MinFree] = [k |-> "conf", c |-> c, nc |-> nc]]
  /\ slot' = [slot EXCEPT ![s] = MinFree]
  /\ Log([op |-> "newconf", slot |-> s, content |-> c, nc |-> nc])
  /\ UNCHANGED <<confPal, enumCache, global, lastOut, lastWant>>
(* the configuration and the palette it owns are garbage collected *)
DropConf(s) ==
  /\ Can /\ slot[s] # 0 /\ slot[s] # global
  /\ LET a == slot[s]  p == confPal[a] IN
       /\ heap' = [x \in 1 .. NAddr |-> IF x = a \/ x = p THEN Free ELSE heap[x]]
       /\ confPal' = [confPal EXCEPT ![a] = 0]
       /\ enumCache' = IF Purge /\ p # 0 THEN [k \in DOMAIN enumCache \ {p} |-> enumCache[k]] ELSE enumCache
  /\ slot' = [slot EXCEPT ![s] = 0]
  /\ Log([op |-> "dropconf", slot |-> s])
  /\ UNCHANGED <<global, lastOut, lastWant>>
SetGlobal(s) ==
  /\ Can /\ slot[s] # 0
  /\ global' = slot[s]
  /\ Log([op |-> "setglobal", slot |-> s])
  /\ UNCHANGED <<heap, slot, confPal, enumCache, lastOut, lastWant>>
(* via = a slot number or 0 for "the global configuration" *)
Render(kind, via, nocolor, mode) ==
  /\ Can
  /\ LET a == IF via = 0 THEN global ELSE slot[via] IN
     /\ a # 0
     /\ IF confPal[a] # 0 \/ FreeAddrs # {} THEN
          LET p == IF confPal[a] # 0 THEN confPal[a] ELSE MinFree
              c == heap[a].c
              out == IF p \in DOMAIN enumCache THEN enumCache[p] ELSE c IN
            /\ heap' = [heap EXCEPT ![p] = [k |-> "pal", c |-> c]]
            /\ confPal' = [confPal EXCEPT ![a] = p]
            /\ enumCache' = IF p \in DOMAIN enumCache THEN enumCache ELSE (p :> c) @@ enumCache
            /\ lastOut' = out /\ lastWant' = c
            /\ Log([op |-> "render", kind |-> kind, via |-> via, nocolor |-> nocolor, mode |-> mode,
                    content |-> c, effnc |-> (nocolor \/ heap[a].nc)])
        ELSE FALSE
  /\ UNCHANGED <<slot, global>>
Report == /\ n = MaxActions /\ n' = n + 1
          /\ Emit => PrintT(ToJson(hist))
          /\ UNCHANGED <<heap, slot, confPal, enumCache, global, lastOut, lastWant, hist>>
Next == \/ \E s \in 1 .. NSlots : \E c \in Contents : \E nc \in BOOLEAN : NewConf(s, c, nc)
        \/ \E s \in 1 .. NSlots : DropConf(s) \/ SetGlobal(s)
        \/ \E k \in Kinds : \E v \in 0 .. NSlots : \E nc \in BOOLEAN : \E m \in {"whole", "lines"} : Render(k, v, nc, m)
        \/ Report
Spec == Init /\ [][Next]_vars

Pure == lastOut = lastWant
(* a cache entry that can still be hit always agrees with the palette that would hit it *)
CacheCoherent == \A p \in DOMAIN enumCache : heap[p].k = "pal" => enumCache[p] = heap[p].c
=============================================================================
