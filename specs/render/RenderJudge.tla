----------------------------- MODULE RenderJudge -----------------------------
(***************************************************************************)
(* Trace acceptor for recorded render events (code -> spec).  A trace is   *)
(*  [ref |-> [key |-> output id], ev |-> << [key, nckey, out, lines, stripped, esc] >>]  *)
(* ref: outputs obtained in fresh interpreters (one per key); output ids   *)
(* are interned strings.  memo is seeded from ref and never changes: an    *)
(* event is accepted iff its output is the memoised one, consuming the     *)
(* result line by line gives the same text, the coloured output with the   *)
(* escape sequences removed is the no_color output, and no_color output    *)
(* contains no escape character.                                           *)
(***************************************************************************)
EXTENDS Naturals, Sequences, TLC, Json, IOUtils
Cases == ndJsonDeserialize(IOEnv.CASES)
VARIABLES tid, l, memo, verdict
vars == <<tid, l, memo, verdict>>
C == Cases[tid]
Init == tid \in 1 .. Len(Cases) /\ l = 1 /\ memo = Cases[tid].ref /\ verdict = "run"
E == C.ev[l]
Reject(why) == verdict' = why /\ PrintT(<<"REJECT", tid, why, l>>) /\ UNCHANGED <<tid, l, memo>>
RenderEv ==
  /\ verdict = "run" /\ l <= Len(C.ev)
  /\ IF E.out # memo[E.key] THEN Reject("output-depends-on-history")
     ELSE IF E.lines # E.out THEN Reject("line-by-line-differs-from-whole")
     ELSE IF E.stripped # memo[E.nckey] THEN Reject("colours-change-the-text")
     ELSE IF E.esc THEN Reject("escape-in-no-color-output")
     ELSE l' = l + 1 /\ UNCHANGED <<tid, memo, verdict>>
Finish == /\ verdict = "run" /\ l > Len(C.ev) /\ verdict' = "ACCEPT" /\ PrintT(<<"ACCEPT", tid>>) /\ UNCHANGED <<tid, l, memo>>
Next == RenderEv \/ Finish
Spec == Init /\ [][Next]_vars
=============================================================================
