----------------------------- MODULE PPJsonCases -----------------------------
(* Builder of abstract value shapes (the driver scales them with padding so that the rendered      *)
(* lengths sweep the one-line / multi-line decisions): all nestings of lists and dicts of          *)
(* depth <= Depth with 0..Width elements; leaves are scalars ("s") or empty containers.            *)
EXTENDS Naturals, Sequences, FiniteSets, TLC, Json
CONSTANTS Depth, Width, Emit
Leaf == { [t |-> "s"], [t |-> "list", es |-> <<>>], [t |-> "dict", es |-> <<>>] }
RECURSIVE Shapes(_)
Shapes(d) == IF d = 0 THEN Leaf
             ELSE LET sub == Shapes(d - 1)
                      seqs == UNION { [1 .. n -> sub] : n \in 1 .. Width } IN
                  Leaf \cup { [t |-> "list", es |-> s] : s \in seqs } \cup { [t |-> "dict", es |-> s] : s \in seqs }
VARIABLES shape, phase
vars == <<shape, phase>>
Init == shape \in Shapes(Depth) /\ phase = "new"
Report == /\ phase = "new" /\ phase' = "done" /\ UNCHANGED shape
          /\ Emit => PrintT(ToJson(shape))
Next == Report
Spec == Init /\ [][Next]_vars
RECURSIVE DepthOf(_)
DepthOf(s) == IF s.t = "s" \/ s.es = <<>> THEN 0
              ELSE 1 + (CHOOSE m \in 0 .. Depth : (\E i \in 1 .. Len(s.es) : DepthOf(s.es[i]) = m) /\ (\A i \in 1 .. Len(s.es) : DepthOf(s.es[i]) <= m))
Bounded == DepthOf(shape) <= Depth
=============================================================================
