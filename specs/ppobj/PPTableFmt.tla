------------------------------ MODULE PPTableFmt ------------------------------
(***************************************************************************)
(* ak/ppobj.py: life cycle of a table's format object.                     *)
(*                                                                         *)
(* I-state: the column descriptions, the record limits, whether column     *)
(* widths are frozen (the table was printed since its format was last set) *)
(* and what the last print found out about skipped records.                *)
(* Actions: Construct, Print, SetSame (table.fmt = str(table.fmt)),        *)
(* SetEmpty ("", ";" or ";;"), SetCols, SetLimits, and at any moment the   *)
(* observation Shape = what str(table.fmt) must describe.                  *)
(* A-spec (checked by the driver on real renderings after EVERY action):   *)
(*   Render(PPTable(records, fmt = str(t.fmt))) = Render(t)                *)
(*   Render(t') = Render(t) where t' is t after t.fmt = str(t.fmt)         *)
(*   SetEmpty changes nothing.                                             *)
(***************************************************************************)
EXTENDS Naturals, Integers, Sequences, FiniteSets, TLC, Json
CONSTANTS MaxCols, MaxActions, Small, Emit,
          Tiny      \* TRUE: two ranged columns only, break-by or not (exhaustive life cycles of two-column tables incl. RemoveCols)

Fields == IF Small THEN {"e", "c(x)"} ELSE {"a", "b", "e", "c(x)"}      \* "e" is an enum field (supports modifiers);
                                                                         \* "c(x)": a field name with parentheses (sql style)
Mods(f) == IF f = "e" THEN {"", "val", "name", "full"} ELSE {""}
Ranges == IF Small THEN { <<3, 3>>, <<1, 6>>, <<1, 999>> } ELSE { <<3, 3>>, <<0, 0>>, <<1, 6>>, <<2, 20>>, <<1, 999>> }
ColPool == { [f |-> f, mod |-> m, brk |-> b, min |-> r[1], max |-> r[2]] :
                 f \in Fields, m \in {"", "val", "name", "full"}, b \in BOOLEAN, r \in Ranges }
Cols1 == IF Tiny THEN { [f |-> f, mod |-> "", brk |-> b, min |-> 1, max |-> 6] : f \in {"e", "c(x)"}, b \in BOOLEAN }
         ELSE { c \in ColPool : c.mod \in Mods(c.f) }
ColLists == UNION { [1 .. n -> Cols1] : n \in 1 .. MaxCols }
LimitPool == { <<30, 20>>, <<1, 1>>, <<0, 2>>, <<2, 0>>, <<2, 2>>, <<0, 0>>, <<-1, -1>> }        \* <<-1,-1>> = "*" (no limits)
(* half-open pairs can only be given through the constructor argument limits=(n_first, n_last) with one None (-1):  *)
(* they mean "no limits" and are reported as "*"                                                                     *)
HalfOpen == { <<-1, 2>>, <<3, -1>> }
NoLimits(l) == l[1] < 0 \/ l[2] < 0

VARIABLES cols, limits, frozen, skipped, hist, n
vars == <<cols, limits, frozen, skipped, hist, n>>

(* number of body lines (records + break lines) is not modelled; whether records are skipped *)
(* is decided by the real table and reported back only through the shape of the fmt string   *)
Shape == [cols   |-> [i \in 1 .. Len(cols) |-> cols[i] @@ [annot |-> frozen /\ cols[i].min # cols[i].max]],
          limits |-> IF skipped = "no" THEN [k |-> "omitted", n |-> 0, m |-> 0]
                     ELSE IF NoLimits(limits) THEN [k |-> "star", n |-> 0, m |-> 0]
                     ELSE [k |-> "nm", n |-> limits[1], m |-> limits[2]]]

Init == /\ \E cl \in ColLists : cols = cl
        /\ \E l \in LimitPool \cup HalfOpen : limits = l
        /\ frozen = FALSE /\ skipped = "unknown" /\ n = 0
        /\ hist = << [op |-> "construct", cols |-> cols, limits |-> limits] >>
Can == n < MaxActions
(* what a print does to the skipped flag depends on the number of lines; the driver reports it, *)
(* the spec allows both outcomes and records which one it assumed                              *)
DoPrint == /\ Can /\ n' = n + 1
         /\ frozen' = TRUE
         /\ \E s \in {"yes", "no"} :
              /\ (NoLimits(limits) => s = "no")
              /\ skipped' = s
              /\ hist' = Append(hist, [op |-> "print", skipped |-> s])
         /\ UNCHANGED <<cols, limits>>
(* any use of the setter builds the new format from a clone: widths are negotiated again *)
SetSame == /\ Can /\ n' = n + 1 /\ frozen' = FALSE /\ skipped' = "unknown"
           /\ limits' = IF skipped = "no" THEN limits ELSE limits
           /\ hist' = Append(hist, [op |-> "setsame"])
           /\ UNCHANGED cols
SetEmpty == /\ Can /\ n' = n + 1 /\ frozen' = FALSE /\ skipped' = "unknown"
            /\ \E s \in {"", ";", ";;"} : hist' = Append(hist, [op |-> "setempty", s |-> s])
            /\ UNCHANGED <<cols, limits>>
SetCols == /\ ~Tiny                      \* the Tiny family is about RemoveCols; new column lists are covered by the other families
           /\ Can /\ n' = n + 1 /\ frozen' = FALSE /\ skipped' = "unknown"
           /\ \E cl \in ColLists : cols' = cl /\ hist' = Append(hist, [op |-> "setcols", cols |-> cl])
           /\ UNCHANGED limits
SetLimits == /\ Can /\ n' = n + 1 /\ frozen' = FALSE /\ skipped' = "unknown"
             /\ \E l \in LimitPool : limits' = l /\ hist' = Append(hist, [op |-> "setlimits", limits |-> l])
             /\ UNCHANGED cols
(* table.remove_columns(<<field>>): every column showing that field goes; the limits stay as they are, the widths are *)
(* negotiated again at the next print (without a break-by column other records may be visible)                       *)
RemoveCols(f) == /\ Can /\ n' = n + 1
                 /\ \E i \in 1 .. Len(cols) : cols[i].f = f
                 /\ \E i \in 1 .. Len(cols) : cols[i].f # f            \* something remains
                 /\ cols' = SelectSeq(cols, LAMBDA c : c.f # f)
                 /\ hist' = Append(hist, [op |-> "removecols", f |-> f])
                 /\ frozen' = FALSE
                 /\ UNCHANGED <<limits, skipped>>
Report == /\ n = MaxActions /\ n' = n + 1
          /\ Emit => PrintT(ToJson([hist |-> hist, final |-> Shape]))
          /\ UNCHANGED <<cols, limits, frozen, skipped, hist>>
Next == DoPrint \/ SetSame \/ SetEmpty \/ SetCols \/ SetLimits \/ (\E f \in Fields : RemoveCols(f)) \/ Report
Spec == Init /\ [][Next]_vars

(* design-level facts *)
(* the reported format never loses a column description: parsing Shape gives back the columns *)
ShapeKeepsColumns == \A i \in 1 .. Len(cols) :
   /\ Shape.cols[i].f = cols[i].f /\ Shape.cols[i].mod = cols[i].mod /\ Shape.cols[i].brk = cols[i].brk
   /\ Shape.cols[i].min = cols[i].min /\ Shape.cols[i].max = cols[i].max
(* limits are omitted only when the last print skipped nothing *)
LimitsOmittedOnlyWhenHarmless == (Shape.limits.k = "omitted") => skipped = "no"
=============================================================================
