-------------------------------- MODULE PPTable --------------------------------
(***************************************************************************)
(* ak/ppobj.py PPTable: layout acceptor (trace validation, one action per  *)
(* printed line).  A case:                                                 *)
(*  [cols  |-> << [min, max, brk] >>, titles |-> << text >>,                *)
(*   cells |-> << << desired text per column >> per record >>,              *)
(*   keys  |-> << break-by key per record >>  (equal keys = no break line),  *)
(*   limits |-> <<n, m>> (<<-1,-1>> = no limits), hdr |-> text, ftr |-> text, *)
(*   lines |-> << printed line >>]            texts are code point sequences  *)
(* The acceptor does not fix column widths (any width within [min, max]),  *)
(* the alignment side, or where padding goes.                              *)
(***************************************************************************)
EXTENDS Naturals, Integers, Sequences, FiniteSets, TLC, Json, IOUtils
Cases == ndJsonDeserialize(IOEnv.CASES)

PLUS == 43  MINUS == 45  BAR == 124  SPACE == 32  DOT == 46
VARIABLES tid, ln, phase, bi, verdict
vars == <<tid, ln, phase, bi, verdict>>
C == Cases[tid]
NC == Len(C.cols)
L(i) == C.lines[i]
Border == L(1)

(* positions of '+' in the border line *)
PlusPos == { i \in 1 .. Len(Border) : Border[i] = PLUS }
RECURSIVE SetToSortedSeq(_)
SetToSortedSeq(S) == IF S = {} THEN <<>> ELSE LET m == CHOOSE x \in S : \A y \in S : x <= y IN <<m>> \o SetToSortedSeq(S \ {m})
Pos == SetToSortedSeq(PlusPos)
W == Len(Border)
Width(c) == Pos[c + 1] - Pos[c] - 1
BorderOK == /\ Len(Border) >= 2 /\ Border[1] = PLUS /\ Border[W] = PLUS
            /\ \A i \in 1 .. W : Border[i] \in {PLUS, MINUS}
            /\ Len(Pos) = NC + 1
            /\ \A c \in 1 .. NC : Width(c) >= C.cols[c].min /\ Width(c) <= C.cols[c].max

Spaces(n) == [i \in 1 .. n |-> SPACE]
Dots(n) == [i \in 1 .. n |-> DOT]
Min(a, b) == IF a < b THEN a ELSE b
(* a text shown in a field of width w: padded with spaces on either side, or a prefix followed by dots *)
Fits(text, w, shown) ==
  /\ Len(shown) = w
  /\ IF Len(text) <= w
       THEN \E a \in 0 .. (w - Len(text)) : shown = Spaces(a) \o text \o Spaces(w - Len(text) - a)
       ELSE shown = SubSeq(text, 1, w - Min(3, w)) \o Dots(Min(3, w))
RowOK(line, texts) ==
  /\ Len(line) = W
  /\ \A i \in 1 .. W : (i \in PlusPos) => line[i] = BAR
  /\ \A c \in 1 .. NC : Fits(texts[c], Width(c), SubSeq(line, Pos[c] + 1, Pos[c + 1] - 1))
(* a value is cut ("too long") only in a column that already has its maximal width *)
CutOnlyAtMax(texts) == \A c \in 1 .. NC : Len(texts[c]) > Width(c) => Width(c) = C.cols[c].max
Framed(line, text) == /\ Len(line) = W /\ line[1] = BAR /\ line[W] = BAR /\ Fits(text, W - 2, SubSeq(line, 2, W - 1))

(* expected body: records with a break line wherever the break-by key changes *)
NR == Len(C.cells)
HasBrk == \E c \in 1 .. NC : C.cols[c].brk
RECURSIVE Body(_)
Body(r) == IF r > NR THEN <<>>
           ELSE (IF r > 1 /\ HasBrk /\ C.keys[r] # C.keys[r - 1] THEN << [k |-> "break"] >> ELSE <<>>)
                \o << [k |-> "rec", r |-> r] >> \o Body(r + 1)
Full == Body(1)
Limited == C.limits[1] >= 0 /\ Len(Full) > C.limits[1] + C.limits[2] + 1
First == SubSeq(Full, 1, C.limits[1])
Last == SubSeq(Full, Len(Full) - C.limits[2] + 1, Len(Full))
ShownRecs == Len(SelectSeq(First \o Last, LAMBDA x : x.k = "rec"))
Visible == IF Limited THEN First \o << [k |-> "skip", n |-> NR - ShownRecs] >> \o Last ELSE Full

Digits(n) == IF n < 10 THEN <<48 + n>> ELSE IF n < 100 THEN <<48 + (n \div 10), 48 + (n % 10)>>
             ELSE <<48 + (n \div 100), 48 + ((n \div 10) % 10), 48 + (n % 10)>>
SkipText(n) == <<46, 46, 46, 32>> \o Digits(n) \o <<32, 114, 101, 99, 111, 114, 100, 115, 32, 115, 107, 105, 112, 112, 101, 100>>

Init == tid \in 1 .. Len(Cases) /\ ln = 1 /\ phase = "border1" /\ bi = 1 /\ verdict = "run"
Reject(why) == verdict' = why /\ PrintT(<<"REJECT", tid, why, ln>>) /\ UNCHANGED <<tid, ln, phase, bi>>
Go(p) == ln' = ln + 1 /\ phase' = p /\ UNCHANGED <<tid, verdict>>
Have == verdict = "run" /\ ln <= Len(C.lines)
AllSameLen == \A i \in 1 .. Len(C.lines) : Len(L(i)) = W

TopBorder == /\ Have /\ phase = "border1"
             /\ IF ~BorderOK THEN Reject("border-or-column-width") ELSE IF ~AllSameLen THEN Reject("lines-differ-in-width")
                ELSE Go(IF C.hdr # <<>> THEN "header" ELSE "title") /\ UNCHANGED bi
Header == /\ Have /\ phase = "header"
          /\ IF Framed(L(ln), C.hdr) THEN Go("title") /\ UNCHANGED bi ELSE Reject("header-line")
Title == /\ Have /\ phase = "title"
         /\ IF RowOK(L(ln), C.titles) THEN Go("border2") /\ UNCHANGED bi ELSE Reject("title-line")
Border2 == /\ Have /\ phase = "border2"
           /\ IF L(ln) = Border THEN Go("body") /\ UNCHANGED bi ELSE Reject("second-border")
BodyLine == /\ Have /\ phase = "body" /\ bi <= Len(Visible)
            /\ LET e == Visible[bi] IN
               IF e.k = "rec" THEN (IF ~RowOK(L(ln), C.cells[e.r]) THEN Reject("record-line")
                                    ELSE IF ~CutOnlyAtMax(C.cells[e.r]) THEN Reject("value-cut-in-a-column-below-its-maximal-width")
                                    ELSE Go("body") /\ bi' = bi + 1)
               ELSE IF e.k = "break" THEN (IF Framed(L(ln), <<>>) THEN Go("body") /\ bi' = bi + 1 ELSE Reject("break-line"))
               ELSE (IF Framed(L(ln), SkipText(e.n)) THEN Go("body") /\ bi' = bi + 1 ELSE Reject("skipped-records-line"))
Border3 == /\ Have /\ phase = "body" /\ bi > Len(Visible)
           /\ IF L(ln) = Border THEN Go("footer") /\ UNCHANGED bi ELSE Reject("extra-line-or-missing-border")
Footer == /\ Have /\ phase = "footer"
          /\ IF C.ftr # <<>> /\ Fits(C.ftr, W, L(ln)) THEN Go("end") /\ UNCHANGED bi ELSE Reject("footer-line")
Finish == /\ verdict = "run" /\ ln > Len(C.lines)
          /\ IF phase = "end" \/ (phase = "footer" /\ C.ftr = <<>>)
               THEN verdict' = "ACCEPT" /\ PrintT(<<"ACCEPT", tid>>) /\ UNCHANGED <<tid, ln, phase, bi>>
               ELSE Reject("output-ends-early")
Extra == Have /\ phase = "end" /\ Reject("trailing-line")
Next == TopBorder \/ Header \/ Title \/ Border2 \/ BodyLine \/ Border3 \/ Footer \/ Finish \/ Extra
Spec == Init /\ [][Next]_vars
=============================================================================
