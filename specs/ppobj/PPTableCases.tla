---------------------------- MODULE PPTableCases ----------------------------
(* Builder of abstract tables: AddColumn, AddRecord, SetOptions, Finish.                           *)
(* A column has a width range, a break-by flag and a kind (plain / enum in one of its modifiers);  *)
(* a record gives, per column, a length class of the cell text (break-by and enum columns hold a   *)
(* small value id instead).  The driver turns length classes into values of mixed Python types.    *)
EXTENDS Naturals, Integers, Sequences, FiniteSets, TLC, Json
CONSTANTS MaxCols, MaxRecs, Emit
Ranges == { <<0, 0>>, <<1, 1>>, <<2, 2>>, <<3, 3>>, <<2, 5>>, <<0, 9>>, <<4, 30>> }
Kinds  == { "plain", "enum", "enum/val", "enum/name", "enum/full" }
LenClasses == { 0, 1, 2, 3, 4, 6, 12 }
LimitChoices == { <<99, 99>>, <<0, 0>>, <<1, 1>>, <<2, 0>>, <<0, 1>>, <<1, 2>>, <<-1, -1>> }   \* <<-1,-1>>: limits "*"
TextClasses == { 0, 3, 40 }     \* header / footer length classes (0 = default footer / no header)
VARIABLES cols, recs, opts, phase
vars == <<cols, recs, opts, phase>>
Init == cols = <<>> /\ recs = <<>> /\ opts = [limits |-> <<99, 99>>, hdr |-> 0, ftr |-> 0] /\ phase = "cols"
AddColumn == /\ phase = "cols" /\ Len(cols) < MaxCols
             /\ \E r \in Ranges : \E b \in BOOLEAN : \E k \in Kinds :
                  cols' = Append(cols, [min |-> r[1], max |-> r[2], brk |-> b, kind |-> k])
             /\ UNCHANGED <<recs, opts, phase>>
EndCols == phase = "cols" /\ cols # <<>> /\ phase' = "recs" /\ UNCHANGED <<cols, recs, opts>>
CellChoices(c) == IF cols[c].kind # "plain" THEN 0 .. 4 ELSE IF cols[c].brk THEN 0 .. 3 ELSE LenClasses
AddRecord == /\ phase = "recs" /\ Len(recs) < MaxRecs
             /\ \E r \in [1 .. Len(cols) -> 0 .. 12] :
                  /\ \A c \in 1 .. Len(cols) : r[c] \in CellChoices(c)
                  /\ recs' = Append(recs, r)
             /\ UNCHANGED <<cols, opts, phase>>
SetOptions == /\ phase = "recs" /\ phase' = "done"
              /\ \E l \in LimitChoices : \E h \in TextClasses : \E f \in TextClasses :
                   opts' = [limits |-> l, hdr |-> h, ftr |-> f]
              /\ UNCHANGED <<cols, recs>>
Report == /\ phase = "done" /\ phase' = "reported" /\ UNCHANGED <<cols, recs, opts>>
          /\ Emit => PrintT(ToJson([cols |-> cols, recs |-> recs, opts |-> opts]))
Next == AddColumn \/ EndCols \/ AddRecord \/ SetOptions \/ Report
Spec == Init /\ [][Next]_vars
WellFormed == \A i \in 1 .. Len(recs) : Len(recs[i]) = Len(cols)
=============================================================================
