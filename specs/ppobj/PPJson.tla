-------------------------------- MODULE PPJson --------------------------------
(***************************************************************************)
(* ak/ppobj.py PrettyPrinter: printer acceptor (trace validation).          *)
(*                                                                         *)
(* A case is [v |-> value, items |-> lexical items of the real output].    *)
(* value  ::= [t |-> "dict", es |-> << [k |-> <<code points>>, v |-> value] >>]  (insertion order)   *)
(*          | [t |-> "list", es |-> << value >>]                                                       *)
(*          | [t |-> "scalar", kind |-> "str"|"num"|"true"|"false"|"null", s |-> <<code points>>]     *)
(* item   ::= [k |-> "{" | "}" | "[" | "]" | "," | ":"] | [k |-> "key", s] | [k |-> "scalar", kind, s] *)
(* Line breaks and indentation are not items: the layout is free.          *)
(* The acceptor is a pushdown machine: one action per consumed item.       *)
(* Accepting means: every element appears exactly once, in order (dict     *)
(* entries in sorted key order), separated by exactly one comma - so the   *)
(* text reads back as the same data.                                       *)
(***************************************************************************)
EXTENDS Naturals, Sequences, SequencesExt, FiniteSets, TLC, Json, IOUtils

Cases == ndJsonDeserialize(IOEnv.CASES)

RECURSIVE KeyLess(_, _)
KeyLess(a, b) == IF b = <<>> THEN FALSE ELSE IF a = <<>> THEN TRUE
                 ELSE IF Head(a) # Head(b) THEN Head(a) < Head(b) ELSE KeyLess(Tail(a), Tail(b))
SortedEntries(es) == SortSeq(es, LAMBDA x, y : KeyLess(x.k, y.k))

(* stack frame: [t |-> "dict"|"list", rest |-> entries still to come, sep |-> a comma is due, st |-> "key"|"colon"|"val"] *)
VARIABLES tid, pos, stack, want, verdict
vars == <<tid, pos, stack, want, verdict>>
(* want: the value expected next (when the machine is at a value position), or [t |-> "none"] *)
NoVal == [t |-> "none"]
C == Cases[tid]
It == C.items[pos]

Init == /\ tid \in 1 .. Len(Cases) /\ pos = 1 /\ stack = <<>> /\ want = Cases[tid].v /\ verdict = "run"

Reject(why) == /\ verdict' = why /\ PrintT(<<"REJECT", tid, why, pos>>) /\ UNCHANGED <<tid, pos, stack, want>>
Top == stack[Len(stack)]
Pop == SubSeq(stack, 1, Len(stack) - 1)
Advance == pos' = pos + 1 /\ UNCHANGED <<tid, verdict>>

(* after a value is complete: the enclosing frame expects a separator or its closer *)
Running == verdict = "run" /\ pos <= Len(C.items)

(* at a value position *)
ValueStep ==
  /\ Running /\ want.t # "none"
  /\ IF want.t = "scalar"
       THEN IF It.k = "scalar" /\ It.kind = want.kind /\ It.s = want.s
              THEN Advance /\ want' = NoVal /\ UNCHANGED stack
              ELSE Reject("wrong-scalar")
     ELSE IF want.t = "dict"
       THEN IF It.k = "{"
              THEN /\ Advance /\ want' = NoVal
                   /\ stack' = Append(stack, [t |-> "dict", rest |-> SortedEntries(want.es), sep |-> FALSE, st |-> "key"])
              ELSE Reject("expected-{")
     ELSE IF It.k = "["
              THEN /\ Advance
                   /\ IF want.es = <<>> THEN want' = NoVal /\ stack' = Append(stack, [t |-> "list", rest |-> <<>>, sep |-> FALSE, st |-> "val"])
                      ELSE want' = NoVal /\ stack' = Append(stack, [t |-> "list", rest |-> want.es, sep |-> FALSE, st |-> "val"])
              ELSE Reject("expected-[")

(* inside a container, between values *)
FrameStep ==
  /\ Running /\ want.t = "none" /\ stack # <<>>
  /\ LET f == Top IN
     IF f.rest = <<>>
       THEN IF (f.t = "dict" /\ It.k = "}") \/ (f.t = "list" /\ It.k = "]")
              THEN Advance /\ stack' = Pop /\ UNCHANGED want
              ELSE Reject("expected-closer-or-extra-element")
     ELSE IF f.sep
       THEN IF It.k = "," THEN Advance /\ stack' = [stack EXCEPT ![Len(stack)].sep = FALSE] /\ UNCHANGED want
            ELSE Reject("missing-comma-or-missing-element")
     ELSE IF f.t = "list"
       THEN /\ want' = Head(f.rest) /\ stack' = [stack EXCEPT ![Len(stack)].rest = Tail(f.rest), ![Len(stack)].sep = TRUE]
            /\ UNCHANGED <<tid, pos, verdict>>
     ELSE IF f.st = "key"
       THEN IF It.k = "key" /\ It.s = Head(f.rest).k
              THEN Advance /\ stack' = [stack EXCEPT ![Len(stack)].st = "colon"] /\ UNCHANGED want
              ELSE Reject("wrong-or-unsorted-key")
     ELSE IF f.st = "colon"
       THEN IF It.k = ":" THEN Advance /\ stack' = [stack EXCEPT ![Len(stack)].st = "val"] /\ UNCHANGED want
            ELSE Reject("expected-colon")
     ELSE /\ want' = Head(f.rest).v
          /\ stack' = [stack EXCEPT ![Len(stack)].rest = Tail(f.rest), ![Len(stack)].sep = TRUE, ![Len(stack)].st = "key"]
          /\ UNCHANGED <<tid, pos, verdict>>

Finish ==
  /\ verdict = "run"
  /\ \/ /\ pos > Len(C.items)
        /\ IF stack = <<>> /\ want.t = "none"
             THEN verdict' = "ACCEPT" /\ PrintT(<<"ACCEPT", tid>>) /\ UNCHANGED <<tid, pos, stack, want>>
             ELSE Reject("output-ends-early")
     \/ /\ pos <= Len(C.items) /\ stack = <<>> /\ want.t = "none"
        /\ Reject("trailing-output")
Next == ValueStep \/ FrameStep \/ Finish
Spec == Init /\ [][Next]_vars
=============================================================================
