------------------------------- MODULE XlsRead -------------------------------
(***************************************************************************)
(* ak/xlsread.py: reading objects from a worksheet table.                  *)
(*                                                                         *)
(* Sheet = sequence of rows of cell values ("" = blank).  Rule set (fixed  *)
(* shape, the interesting freedom is in the sheet): id <- "Id" (key),      *)
(* name <- "Name", opt <- optional column "Opt" with default, ext external,*)
(* marks <- "*" ranged attribute (dict of the unknown titled columns).     *)
(* Builder: ChooseLayout, leading blank rows, AddRow, EndTable (optional   *)
(* trailing content), Finish.                                              *)
(* Reader I-spec: ReadRow processes one sheet row with the state           *)
(* [titlesDone, prevEff, out] exactly as iter_table does.                  *)
(* A-spec: (1) every value is the conversion of the cell at its reported   *)
(* origin; one result per data row up to the end rule; (2) ladder reading  *)
(* = plain reading of the filled sheet (LadderEquivalence).                *)
(***************************************************************************)
EXTENDS Naturals, Sequences, FiniteSets, TLC, Json

CONSTANTS MaxRows, Emit,
          MaxCols       \* only the layouts of at most MaxCols columns (bounds the exhaustive runs; 5 = all)

Blank == ""
Vals == {Blank, "a", "b", "0"}          \* "0" stands for a cell holding the NUMBER 0 (not blank)
AllLayouts == { <<"Id", "Name", "X1", "X2">>, <<"Name", "Id", "X1">>, <<"", "Id", "Name", "Opt">>,
             <<"Id", "X1", "Name", "X2">>, <<"X1", "X2", "Id", "Name">>, <<"Id", "Name">>,
             <<"Id", "", "X1", "Name">>, <<"Opt", "Id", "X1", "X2", "Name">>, <<"Id", "Name", "X1", "", "X2">>,
             <<"X1", "Id", "X2", "Name">> }
Layouts == { t \in AllLayouts : Len(t) <= MaxCols }
Known == {"Id", "Name", "Opt"}

VARIABLES titles, lead, rows, tail, stopOn, ladder, phase,
          keyN      \* number of key attributes of the object class: 1 (id) or 2 (id, name); a row gives None iff ALL key cells are blank
vars == <<titles, lead, rows, tail, stopOn, ladder, phase, keyN>>

NC == Len(titles)
RowBlank(r) == \A i \in 1 .. Len(r) : r[i] = Blank
Col(name) == IF \E i \in 1 .. NC : titles[i] = name THEN CHOOSE i \in 1 .. NC : titles[i] = name ELSE 0
(* the ranged group: first contiguous run of titled columns that no attribute claims *)
IsRangeCol(i) == titles[i] # Blank /\ titles[i] \notin Known
RangeStart == IF \E i \in 1 .. NC : IsRangeCol(i) THEN CHOOSE i \in 1 .. NC : IsRangeCol(i) /\ \A j \in 1 .. (i - 1) : ~IsRangeCol(j) ELSE 0
RangeCols == IF RangeStart = 0 THEN {} ELSE { i \in RangeStart .. NC : \A j \in RangeStart .. i : IsRangeCol(j) }
FirstCol == IF \E i \in 1 .. NC : titles[i] # Blank THEN CHOOSE i \in 1 .. NC : titles[i] # Blank /\ \A j \in 1 .. (i - 1) : titles[j] = Blank ELSE 0

(* the whole sheet: leading blank rows, titles, data rows, then the tail *)
BlankRow == [i \in 1 .. NC |-> Blank]
Sheet == [i \in 1 .. lead |-> BlankRow] \o <<titles>> \o rows \o tail
TitleIdx == lead + 1

(* ---------- end of table ---------- *)
Ends(r) == IF stopOn = "blank first" THEN r[1] = Blank ELSE RowBlank(r)
RECURSIVE DataCount(_, _)
DataCount(sh, i) == IF i > Len(sh) \/ Ends(sh[i]) THEN 0 ELSE 1 + DataCount(sh, i + 1)
NData(sh) == DataCount(sh, TitleIdx + 1)

(* ---------- ladder: effective cells [v, r] (value and the sheet row that holds it) ---------- *)
LeadingBlankRun(r) == { i \in FirstCol .. NC : \A j \in FirstCol .. i : r[j] = Blank }
RECURSIVE Eff(_, _)
(* Eff(sh, k): effective cells of the k-th data row *)
Eff(sh, k) ==
  LET ri == TitleIdx + k
      own == [i \in 1 .. NC |-> [v |-> sh[ri][i], r |-> ri]] IN
  IF ~ladder \/ FirstCol = 0 \/ k = 1 THEN own
  ELSE LET prev == Eff(sh, k - 1) IN
       [i \in 1 .. NC |-> IF i \in LeadingBlankRun(sh[ri]) THEN prev[i] ELSE own[i]]

(* ---------- objects ---------- *)
Conv(v) == IF v = Blank THEN [none |-> TRUE, s |-> ""] ELSE [none |-> FALSE, s |-> v]
ColName(i) == <<"A", "B", "C", "D", "E", "F">>[i]
Origin(c, i) == [col |-> ColName(i), row |-> c.r]
Obj(eff) ==
  LET idc == Col("Id") IN
  IF eff[idc].v = Blank /\ (keyN = 1 \/ eff[Col("Name")].v = Blank) THEN [isnone |-> TRUE]
  ELSE [isnone |-> FALSE,
        id   |-> [val |-> Conv(eff[idc].v), org |-> Origin(eff[idc], idc)],
        name |-> [val |-> Conv(eff[Col("Name")].v), org |-> Origin(eff[Col("Name")], Col("Name"))],
        opt  |-> IF Col("Opt") = 0 THEN [dflt |-> TRUE]
                 ELSE [dflt |-> FALSE, val |-> Conv(eff[Col("Opt")].v), org |-> Origin(eff[Col("Opt")], Col("Opt"))],
        marks |-> [i \in RangeCols |-> [key |-> titles[i], val |-> Conv(eff[i].v), org |-> Origin(eff[i], i)]]]
Read(sh) == [k \in 1 .. NData(sh) |-> Obj(Eff(sh, k))]

(* ---------- (2) ladder equivalence ---------- *)
Fill(sh) == [i \in 1 .. Len(sh) |->
               IF i > TitleIdx /\ i <= TitleIdx + NData(sh) THEN [c \in 1 .. NC |-> Eff(sh, i - TitleIdx)[c].v] ELSE sh[i]]
Values(o) == IF o.isnone THEN o
             ELSE [isnone |-> FALSE, id |-> o.id.val, name |-> o.name.val,
                   opt |-> IF o.opt.dflt THEN o.opt ELSE [dflt |-> FALSE, val |-> o.opt.val],
                   marks |-> [i \in DOMAIN o.marks |-> [key |-> o.marks[i].key, val |-> o.marks[i].val]]]

(* ---------- builder ---------- *)
Init == /\ titles = <<>> /\ lead = 0 /\ rows = <<>> /\ tail = <<>> /\ stopOn = "blank all" /\ ladder = FALSE
        /\ phase = "layout" /\ keyN = 1
ChooseLayout == /\ phase = "layout" /\ phase' = "rows"
                /\ \E t \in Layouts : titles' = t
                /\ \E l \in 0 .. 1 : lead' = l
                /\ \E s \in {"blank all", "blank first"} : stopOn' = s
                /\ \E ld \in BOOLEAN : ladder' = ld
                /\ \E kn \in 1 .. 2 : keyN' = kn
                /\ UNCHANGED <<rows, tail>>
AddRow == /\ phase = "rows" /\ Len(rows) < MaxRows
          /\ \E r \in [1 .. NC -> Vals] : rows' = Append(rows, r)
          /\ UNCHANGED <<titles, lead, tail, stopOn, ladder, phase, keyN>>
Finish == /\ phase = "rows" /\ phase' = "done"
          /\ \E tl \in { <<>>, <<BlankRow, [i \in 1 .. NC |-> "b"]>> } : tail' = tl
          /\ UNCHANGED <<titles, lead, rows, stopOn, ladder, keyN>>
Report == /\ phase = "done" /\ phase' = "reported"
          /\ Emit => PrintT(ToJson([sheet |-> Sheet, stopOn |-> stopOn, ladder |-> ladder, keyN |-> keyN,
                                    objs |-> Read(Sheet), filled |-> Fill(Sheet)]))
          /\ UNCHANGED <<titles, lead, rows, tail, stopOn, ladder, keyN>>
Next == ChooseLayout \/ AddRow \/ Finish \/ Report
Spec == Init /\ [][Next]_vars

(* ---------- checked by TLC ---------- *)
(* (1) every value is the conversion of the cell its origin names *)
OriginsHold == phase \in {"done", "reported"} =>
  \A k \in 1 .. NData(Sheet) :
     LET o == Read(Sheet)[k] IN
       ~o.isnone =>
          /\ o.id.val = Conv(Sheet[o.id.org.row][Col("Id")])
          /\ o.name.val = Conv(Sheet[o.name.org.row][Col("Name")])
          /\ \A i \in DOMAIN o.marks : o.marks[i].val = Conv(Sheet[o.marks[i].org.row][i])
          /\ o.id.org.row <= TitleIdx + k /\ o.id.org.row > TitleIdx
(* (2) a ladder table reads like the filled-in table, as long as the end rule picks the same rows *)
LadderEquivalence == (phase \in {"done", "reported"} /\ ladder /\ stopOn = "blank all") =>
  LET sh == Sheet  f == Fill(Sheet) IN
    NData(f) = NData(sh) /\
    \A k \in 1 .. NData(sh) :
       Values(Obj(Eff(sh, k))) = Values(Obj([i \in 1 .. NC |-> [v |-> f[TitleIdx + k][i], r |-> TitleIdx + k]]))
=============================================================================
