-------------------------- MODULE ArgGraphAsCoded --------------------------
(***************************************************************************)
(* The registration loop exactly as first coded: register_dependent        *)
(* asserted that a name is registered at most once per parser.  TLC        *)
(* refutes NoAssertion on diamonds (finding F-C19); kept as the design-    *)
(* level explanation of the defect repaired by the fix: commit.  The       *)
(* driver runs it expecting the violation (a regression guard on the       *)
(* model, not on the code).                                                *)
(***************************************************************************)
EXTENDS Naturals, Sequences, FiniteSets, TLC
CONSTANT MaxCmd
VARIABLES n, dep, failed
vars == <<n, dep, failed>>
Init == n = 0 /\ dep = <<>> /\ failed = FALSE

(* number of times the loop would call q.register_dependent(new) *)
Calls(q, ps, d) == Cardinality({p \in ps : p = q}) + Cardinality({p \in ps : p \in d[q]})

Declare(ps) ==
  /\ n < MaxCmd /\ ~failed
  /\ n' = n + 1
  /\ failed' = \E q \in 1 .. n : Calls(q, ps, dep) > 1
  /\ dep' = Append([q \in 1 .. n |-> IF Calls(q, ps, dep) > 0 THEN dep[q] \cup {n + 1} ELSE dep[q]], {})
Next == \E ps \in SUBSET (1 .. n) : Declare(ps)
Spec == Init /\ [][Next]_vars
NoAssertion == ~failed
=============================================================================
