------------------------------ MODULE ArgGraph ------------------------------
(***************************************************************************)
(* ak/cli_tools.py, multi-command ArgParser.                               *)
(*                                                                         *)
(* Case builder: Declare(parents, internal) declares command number n+1    *)
(* with parents among the earlier commands (so every declaration list is   *)
(* an acyclic graph: chains, forests, diamonds, internal '!' option sets). *)
(* I-spec: dep[p] = the _dependent_parsers map of parser p, maintained by  *)
(* the eager registration loop of _init_multicmd_parser; AddOption(p)      *)
(* adds option p to parser p and to every parser registered in dep[p]      *)
(* (AkArgumentParser.add_argument with _propagate).                        *)
(* A-spec: Accepts(c, o) <=> the owner of o is an ancestor-or-self of c    *)
(* in the declared parent relation (reflexive transitive closure).         *)
(* "Option p" stands for every option string owned by parser p: the driver *)
(* adds three (--oP, and --yP / --nP which share one destination); all of  *)
(* them must be accepted / rejected alike.  A command or option-set name   *)
(* that is not the FIRST argument is an ordinary word (or option value) of  *)
(* the default command.                                                    *)
(***************************************************************************)
EXTENDS Naturals, Sequences, FiniteSets, TLC, Json

CONSTANTS MaxCmd,     \* number of declared parsers in a complete case
          Emit

VARIABLES n,        \* parsers declared so far (ids 1..n in declaration order)
          par,      \* par[c]  = declared parents of c
          internal, \* internal[c] = TRUE for a '!' option set
          dep,      \* dep[p]  = names registered in p._dependent_parsers
          has,      \* has[c]  = options parser c accepts (option p is owned by parser p)
          nopt,     \* options added so far (parser ids 1..nopt got theirs)
          phase     \* "declare" | "options" | "done" | "reported"
vars == <<n, par, internal, dep, has, nopt, phase>>

(* ---------- A-spec ---------- *)
RECURSIVE AncSelf(_, _)
AncSelf(c, p) == {c} \cup UNION { AncSelf(q, p) : q \in p[c] }   \* parents are earlier: terminates
Accepts(c, o) == o \in AncSelf(c, par)
Descendants(p) == { c \in 1 .. n : c # p /\ p \in AncSelf(c, par) }
Commands == { c \in 1 .. n : ~internal[c] }
Default  == CHOOSE c \in Commands : \A d \in Commands : c <= d    \* first real command

(* ---------- I-spec ---------- *)
Init == /\ n = 0 /\ par = <<>> /\ internal = <<>> /\ dep = <<>> /\ has = <<>>
        /\ nopt = 0 /\ phase = "declare"

(* the registration loop: for every parent p: register in p and in every parser that already
   lists p as dependent.  Registration is idempotent (a name is a dict key). *)
Registered(ps, d) ==
  [q \in 1 .. n |-> IF q \in ps \/ (\E p \in ps : p \in d[q]) THEN d[q] \cup {n + 1} ELSE d[q]]

Declare(ps, int) ==
  /\ phase = "declare" /\ n < MaxCmd
  /\ n' = n + 1
  /\ par' = Append(par, ps)
  /\ internal' = Append(internal, int)
  /\ dep' = Append(Registered(ps, dep), {})
  /\ has' = Append(has, {})
  /\ UNCHANGED <<nopt, phase>>

EndDeclare == /\ phase = "declare" /\ n = MaxCmd
              /\ \E c \in 1 .. n : ~internal[c]        \* at least one real command
              /\ phase' = "options"
              /\ UNCHANGED <<n, par, internal, dep, has, nopt>>

AddOption == /\ phase = "options" /\ nopt < n
             /\ LET p == nopt + 1 IN
                  has' = [q \in 1 .. n |-> IF q = p \/ q \in dep[p] THEN has[q] \cup {p} ELSE has[q]]
             /\ nopt' = nopt + 1
             /\ UNCHANGED <<n, par, internal, dep, phase>>

EndOptions == /\ phase = "options" /\ nopt = n /\ phase' = "done"
              /\ UNCHANGED <<n, par, internal, dep, has, nopt>>

Report == /\ phase = "done" /\ phase' = "reported"
          /\ Emit => PrintT(ToJson([
                 parents  |-> [c \in 1 .. n |-> par[c]],
                 internal |-> internal,
                 dep      |-> dep,
                 accepts  |-> [c \in 1 .. n |-> { o \in 1 .. n : Accepts(c, o) }],
                 default  |-> Default ]))
          /\ UNCHANGED <<n, par, internal, dep, has, nopt>>

Next == \/ \E ps \in SUBSET (1 .. n) : \E int \in BOOLEAN : Declare(ps, int)
        \/ EndDeclare \/ AddOption \/ EndOptions \/ Report
Spec == Init /\ [][Next]_vars

(* ---------- checked by TLC ---------- *)
DepIsDescendants == \A p \in 1 .. n : dep[p] = Descendants(p)
HasIsAccepts == phase \in {"done", "reported"} =>
                   \A c \in 1 .. n : has[c] = { o \in 1 .. n : Accepts(c, o) }
PartialHas == phase = "options" =>
                   \A c \in 1 .. n : has[c] = { o \in 1 .. nopt : Accepts(c, o) }
=============================================================================
