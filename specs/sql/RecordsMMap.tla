----------------------------- MODULE RecordsMMap -----------------------------
(***************************************************************************)
(* ak/mtd_sql.py, SqlMethod.records_mmap(records, *key_names, unique):      *)
(* records -> {key1: {key2: ... {keyN: record}...}} (or a list of records   *)
(* at the leaves when unique is false) - growth item beyond the listed      *)
(* properties, run inside the C15 check (DRIFT only).                       *)
(*                                                                         *)
(* A record is [a, b] (two attributes over Vals), identified by its         *)
(* position in the sequence.  A-spec: Leaf(p) = the records whose key path   *)
(* is p, in source order; unique => at most one per path, otherwise the      *)
(* call fails (AssertionError); the keys of every level appear in the order  *)
(* of their first occurrence.  I-spec: the loop of the function, one Step    *)
(* per record, state = the mapping built so far; TLC checks Refines and      *)
(* NothingLost in every reachable state.  Builder: every (records, keys,     *)
(* unique) with the final mapping is printed (spec -> code).                *)
(***************************************************************************)
EXTENDS Naturals, Sequences, FiniteSets, TLC, Json

CONSTANTS MaxRecs, Vals, Emit

KeyLists == { <<"a">>, <<"b">>, <<"a", "b">>, <<"b", "a">>, <<"a", "a">> }
RecSeqs == UNION { [1 .. n -> [a : Vals, b : Vals]] : n \in 0 .. MaxRecs }

PathOf(rec, keys) == [i \in 1 .. Len(keys) |-> rec[keys[i]]]
(* ---------- A-spec ---------- *)
Idx(n) == [i \in 1 .. n |-> i]
LeafA(recs, n, keys, p) == SelectSeq(Idx(n), LAMBDA r : PathOf(recs[r], keys) = p)
PathsA(recs, n, keys) == { PathOf(recs[r], keys) : r \in 1 .. n }
DupA(recs, n, keys) == \E p \in PathsA(recs, n, keys) : Len(LeafA(recs, n, keys, p)) > 1
(* values below a prefix in the order of their first occurrence *)
RECURSIVE OrderA(_, _, _, _)
OrderA(recs, n, keys, pre) ==
  IF n = 0 THEN <<>>
  ELSE LET prev == OrderA(recs, n - 1, keys, pre)
           p == PathOf(recs[n], keys)
           k == Len(pre) + 1 IN
       IF k <= Len(keys) /\ SubSeq(p, 1, Len(pre)) = pre /\ ~(\E i \in 1 .. Len(prev) : prev[i] = p[k])
         THEN Append(prev, p[k]) ELSE prev

(* ---------- I-spec: the loop ---------- *)
VARIABLES recs, keys, unique, i, tree, order, failed, done
(* tree: path -> sequence of record indices; order: prefix -> sequence of values (insertion order of the dict below it) *)
vars == <<recs, keys, unique, i, tree, order, failed, done>>

Init == /\ recs \in RecSeqs /\ keys \in KeyLists /\ unique \in BOOLEAN
        /\ i = 0 /\ tree = <<>> /\ order = <<>> /\ failed = FALSE /\ done = FALSE

Prefixes(p) == { SubSeq(p, 1, k) : k \in 0 .. (Len(p) - 1) }
AddOrder(o, p) ==
  [pre \in (DOMAIN o) \cup Prefixes(p) |->
     LET old == IF pre \in DOMAIN o THEN o[pre] ELSE <<>>
         v == p[Len(pre) + 1] IN
     IF pre \in Prefixes(p) /\ ~(\E j \in 1 .. Len(old) : old[j] = v) THEN Append(old, v) ELSE old]

Step == /\ ~done /\ ~failed /\ i < Len(recs)
        /\ LET r == i + 1
               p == PathOf(recs[r], keys) IN
           IF unique /\ p \in DOMAIN tree
             THEN /\ failed' = TRUE
                  (* the dictionaries above the leaf were created (setdefault) before the assertion fires *)
                  /\ UNCHANGED <<tree, order>>
             ELSE /\ tree' = [q \in (DOMAIN tree) \cup {p} |->
                                IF q = p THEN (IF p \in DOMAIN tree THEN Append(tree[p], r) ELSE <<r>>) ELSE tree[q]]
                  /\ order' = AddOrder(order, p)
                  /\ UNCHANGED failed
        /\ i' = i + 1
        /\ UNCHANGED <<recs, keys, unique, done>>

Report == /\ ~done /\ (failed \/ i = Len(recs)) /\ done' = TRUE
          /\ Emit => PrintT(ToJson([recs |-> recs, keys |-> keys, unique |-> unique, failed |-> failed,
                                    leaves |-> { <<p, tree[p]>> : p \in DOMAIN tree },
                                    order |-> { <<pre, order[pre]>> : pre \in DOMAIN order }]))
          /\ UNCHANGED <<recs, keys, unique, i, tree, order, failed>>
Next == Step \/ Report
Spec == Init /\ [][Next]_vars

(* ---------- checked by TLC ---------- *)
(* the mapping built so far is the A-spec mapping of the records processed so far *)
Refines == ~failed =>
   /\ DOMAIN tree = PathsA(recs, i, keys)
   /\ \A p \in DOMAIN tree : tree[p] = LeafA(recs, i, keys, p)
   /\ \A pre \in DOMAIN order : order[pre] = OrderA(recs, i, keys, pre)
(* the call fails exactly when unique is requested and two records share a key path *)
FailsIffDuplicate == done => (failed <=> (unique /\ DupA(recs, Len(recs), keys)))
(* every processed record sits in exactly one leaf *)
NothingLost == ~failed => \A r \in 1 .. i :
   Cardinality({ p \in DOMAIN tree : \E j \in 1 .. Len(tree[p]) : tree[p][j] = r }) = 1
=============================================================================
