------------------------------ MODULE SqlFilter ------------------------------
(***************************************************************************)
(* ak/mtd_sql.py: filter conditions of SqlMethod.                          *)
(*                                                                         *)
(* A-spec: Select(conds, order) = ids of the rows of a fixed table (all    *)
(* pairs of pool values in columns a, b) for which every condition         *)
(* evaluates to TRUE under SQL three-valued logic, in the requested order. *)
(* I-part: Binds(conds) = the values the statement must carry, in          *)
(* placeholder order (as coded: kwargs sorted, OR groups left to right,    *)
(* nothing for NULL tests and empty lists).                                *)
(* Builder: AddCond grows the condition list; Finish reports the case.     *)
(***************************************************************************)
EXTENDS Naturals, Integers, Sequences, FiniteSets, TLC, Json

CONSTANTS MaxConds, Rich, Emit

Null   == [t |-> "null"]
IntV(n) == [t |-> "int", v |-> n]
StrV(s) == [t |-> "str", v |-> s]                 \* s: sequence of one-character strings
BS == "\\"                                        \* one backslash
Vals == { Null, IntV(0), IntV(1), StrV(<<>>), StrV(<<"a">>), StrV(<<"o", "'", "q">>), StrV(<<"%">>),
          StrV(<<"a", BS, "_">>), StrV(<<"a", BS, "q">>) }
(* LIKE without ESCAPE: a backslash in a pattern is an ordinary character *)
Patterns == { <<"%">>, <<"a">>, <<>>, <<"a", "%">>, <<"%", "q">>, <<"o", "'", "q">>, <<"_">>, <<"A">>, <<"a", BS, "_">>, <<"%", BS, "%">> }
Fields == {"a", "b"}

(* the table: one row per pair of values, ids in a fixed enumeration order *)
ValSeq == << Null, IntV(0), IntV(1), StrV(<<>>), StrV(<<"a">>), StrV(<<"o", "'", "q">>), StrV(<<"%">>),
             StrV(<<"a", BS, "_">>), StrV(<<"a", BS, "q">>) >>
NV == Len(ValSeq)
Rows == [i \in 1 .. (NV * NV) |-> [id |-> i, a |-> ValSeq[((i - 1) \div NV) + 1], b |-> ValSeq[((i - 1) % NV) + 1]]]

(* ---------- SQL value semantics (sqlite, columns without type affinity) ---------- *)
CharRank(c) == CASE c = "%" -> 37 [] c = "'" -> 39 [] c = "0" -> 48 [] c = "1" -> 49 [] c = "A" -> 65 [] c = BS -> 92
                 [] c = "_" -> 95 [] c = "a" -> 97 [] c = "o" -> 111 [] c = "q" -> 113 [] OTHER -> 0
RECURSIVE SeqLess(_, _)
SeqLess(s, t) == IF t = <<>> THEN FALSE ELSE IF s = <<>> THEN TRUE
                 ELSE IF CharRank(Head(s)) # CharRank(Head(t)) THEN CharRank(Head(s)) < CharRank(Head(t))
                 ELSE SeqLess(Tail(s), Tail(t))
(* x < y for non-NULL values: every integer sorts before every text *)
Less(x, y) == IF x.t = "int" /\ y.t = "int" THEN x.v < y.v
              ELSE IF x.t = "int" THEN TRUE ELSE IF y.t = "int" THEN FALSE ELSE SeqLess(x.v, y.v)
Cmp3(op, x, y) ==
  IF x.t = "null" \/ y.t = "null" THEN "U"
  ELSE LET r == CASE op = "=" -> x = y [] op = "!=" -> x # y [] op = "<" -> Less(x, y) [] op = ">" -> Less(y, x)
                  [] op = "<=" -> ~Less(y, x) [] op = ">=" -> ~Less(x, y)
       IN IF r THEN "T" ELSE "F"
Not3(v) == CASE v = "T" -> "F" [] v = "F" -> "T" [] OTHER -> "U"
In3(x, vs) ==
  IF vs = <<>> THEN "F"
  ELSE IF \E i \in 1 .. Len(vs) : Cmp3("=", x, vs[i]) = "T" THEN "T"
  ELSE IF x.t = "null" \/ \E i \in 1 .. Len(vs) : vs[i].t = "null" THEN "U" ELSE "F"
Lower(c) == IF c = "A" THEN "a" ELSE c
Text(x) == IF x.t = "int" THEN (IF x.v = 0 THEN <<"0">> ELSE <<"1">>) ELSE x.v
RECURSIVE Match(_, _)
Match(p, s) ==
  IF p = <<>> THEN s = <<>>
  ELSE IF Head(p) = "%" THEN Match(Tail(p), s) \/ (s # <<>> /\ Match(p, Tail(s)))
  ELSE IF s = <<>> THEN FALSE
  ELSE IF Head(p) = "_" \/ Lower(Head(p)) = Lower(Head(s)) THEN Match(Tail(p), Tail(s)) ELSE FALSE
Like3(x, p) == IF x.t = "null" THEN "U" ELSE IF Match(p, Text(x)) THEN "T" ELSE "F"

(* ---------- conditions ---------- *)
(* [k |-> "cmp", f, op, v]        ("=" / "!=" with NULL mean IS NULL / IS NOT NULL)              *)
(* [k |-> "in", f, neg, vs]       vs: sequence of values, may be empty, may contain NULL           *)
(* [k |-> "isnull", f, neg]                                                                        *)
(* [k |-> "like", f, neg, p]                                                                       *)
(* [k |-> "kw", f, v]             keyword filter f=v: like "=" (NULL -> IS NULL)                   *)
(* [k |-> "kwin", f, vs]          keyword filter with a list value: IN                             *)
(* [k |-> "or", cs]               OR group of simple conditions (may be empty -> FALSE)            *)
(* [k |-> "none"]                 a None argument, ignored                                         *)
(* [k |-> "static", form]         a condition given as text: "colcol" = "a = b", "lit" = "a = 'a'"  *)
(*                                 (the text goes into the statement as it is; nothing is bound)    *)
RECURSIVE Eval3(_, _)
Eval3(c, row) ==
  CASE c.k = "cmp" -> IF c.v.t = "null" /\ c.op = "=" THEN (IF row[c.f].t = "null" THEN "T" ELSE "F")
                      ELSE IF c.v.t = "null" /\ c.op = "!=" THEN (IF row[c.f].t = "null" THEN "F" ELSE "T")
                      ELSE Cmp3(c.op, row[c.f], c.v)
    [] c.k = "kw" -> IF c.v.t = "null" THEN (IF row[c.f].t = "null" THEN "T" ELSE "F")
                     ELSE Cmp3("=", row[c.f], c.v)
    [] c.k = "in" -> IF c.neg THEN Not3(In3(row[c.f], c.vs)) ELSE In3(row[c.f], c.vs)
    [] c.k = "kwin" -> In3(row[c.f], c.vs)
    [] c.k = "isnull" -> IF (row[c.f].t = "null") # c.neg THEN "T" ELSE "F"
    [] c.k = "like" -> IF c.neg THEN Not3(Like3(row[c.f], c.p)) ELSE Like3(row[c.f], c.p)
    [] c.k = "or" -> IF \E i \in 1 .. Len(c.cs) : Eval3(c.cs[i], row) = "T" THEN "T"
                     ELSE IF \E i \in 1 .. Len(c.cs) : Eval3(c.cs[i], row) = "U" THEN "U" ELSE "F"
    [] c.k = "none" -> "T"
    [] c.k = "static" -> IF c.form = "colcol" THEN Cmp3("=", row["a"], row["b"]) ELSE Cmp3("=", row["a"], StrV(<<"a">>))

Holds(conds, row) == \A i \in 1 .. Len(conds) : Eval3(conds[i], row) = "T"
SelectAsc(conds) == SelectSeq([i \in 1 .. Len(Rows) |-> i], LAMBDA i : Holds(conds, Rows[i]))
Reverse(s) == [i \in 1 .. Len(s) |-> s[Len(s) - i + 1]]
Select(conds, desc) == IF desc THEN Reverse(SelectAsc(conds)) ELSE SelectAsc(conds)

(* ---------- bind values, in placeholder order ---------- *)
RECURSIVE BindsOf(_)
RECURSIVE BindsSeq(_)
BindsSeq(cs) == IF cs = <<>> THEN <<>> ELSE BindsOf(Head(cs)) \o BindsSeq(Tail(cs))
BindsOf(c) ==
  CASE c.k = "cmp" -> IF c.v.t = "null" /\ c.op \in {"=", "!="} THEN <<>> ELSE <<c.v>>
    [] c.k = "kw" -> IF c.v.t = "null" THEN <<>> ELSE <<c.v>>
    [] c.k \in {"in", "kwin"} -> c.vs
    [] c.k = "like" -> << StrV(c.p) >>
    [] c.k = "or" -> BindsSeq(c.cs)
    [] OTHER -> <<>>
(* positional conditions first, keyword filters after them sorted by name (as the API defines) *)
IsKw(c) == c.k \in {"kw", "kwin"}
Positional(conds) == SelectSeq(conds, LAMBDA c : ~IsKw(c))
KwSorted(conds) == SelectSeq(conds, LAMBDA c : IsKw(c) /\ c.f = "a") \o SelectSeq(conds, LAMBDA c : IsKw(c) /\ c.f = "b")
Binds(conds) == BindsSeq(Positional(conds) \o KwSorted(conds))

(* ---------- builder ---------- *)
CmpOps == {"=", "!=", "<", ">", "<=", ">="}
Lists == { <<>> } \cup { <<v>> : v \in Vals } \cup
         (IF Rich THEN { <<v, w>> : v \in Vals, w \in { Null, IntV(1), StrV(<<"a">>) } } ELSE { <<IntV(0), Null>>, <<StrV(<<"a">>), IntV(1)>> })
(* a list longer than any limit a driver or the code might split it at: 1, 2, ..., 501 (holds a value of the table) *)
LongList == [i \in 1 .. 501 |-> IntV(i)]
Simple ==      { [k |-> "cmp", f |-> f, op |-> op, v |-> v] : f \in Fields, op \in CmpOps, v \in Vals }
          \cup { [k |-> "in", f |-> f, neg |-> n, vs |-> LongList] : f \in Fields, n \in BOOLEAN }
          \cup { [k |-> "in", f |-> f, neg |-> n, vs |-> vs] : f \in Fields, n \in BOOLEAN, vs \in Lists }
          \cup { [k |-> "isnull", f |-> f, neg |-> n] : f \in Fields, n \in BOOLEAN }
          \cup { [k |-> "like", f |-> f, neg |-> n, p |-> p] : f \in Fields, n \in BOOLEAN, p \in Patterns }
OrPool == { [k |-> "cmp", f |-> "a", op |-> "=", v |-> IntV(1)], [k |-> "cmp", f |-> "b", op |-> "<", v |-> StrV(<<"a">>)],
            [k |-> "cmp", f |-> "b", op |-> "=", v |-> Null], [k |-> "in", f |-> "b", neg |-> TRUE, vs |-> <<IntV(0), Null>>],
            [k |-> "in", f |-> "a", neg |-> FALSE, vs |-> <<>>], [k |-> "in", f |-> "b", neg |-> TRUE, vs |-> <<>>], [k |-> "like", f |-> "a", neg |-> FALSE, p |-> <<"%", "q">>],
            [k |-> "isnull", f |-> "a", neg |-> TRUE], [k |-> "cmp", f |-> "a", op |-> "!=", v |-> StrV(<<"o", "'", "q">>)] }
Statics == { [k |-> "static", form |-> "colcol"], [k |-> "static", form |-> "lit"] }
Ors == { [k |-> "or", cs |-> <<>>] } \cup { [k |-> "or", cs |-> <<c>>] : c \in OrPool }
       \cup { [k |-> "or", cs |-> <<c, d>>] : c \in OrPool, d \in OrPool }
       \cup { [k |-> "or", cs |-> <<c, d>>] : c \in Statics, d \in OrPool }
Kws == { [k |-> "kw", f |-> f, v |-> v] : f \in Fields, v \in Vals }
       \cup { [k |-> "kwin", f |-> f, vs |-> vs] : f \in Fields, vs \in { <<>>, <<IntV(1)>>, <<StrV(<<"a">>), Null>> } }
AllConds == Simple \cup Ors \cup Kws \cup { [k |-> "none"] } \cup Statics

VARIABLES conds, desc, phase
vars == <<conds, desc, phase>>
Init == conds = <<>> /\ desc = FALSE /\ phase = "build"
(* at most one keyword filter per field (Python keyword arguments are unique) *)
KwFree(c) == IsKw(c) => \A i \in 1 .. Len(conds) : ~(IsKw(conds[i]) /\ conds[i].f = c.f)
AddCond == /\ phase = "build" /\ Len(conds) < MaxConds
           /\ \E c \in AllConds : KwFree(c) /\ conds' = Append(conds, c)
           /\ UNCHANGED <<desc, phase>>
Finish == /\ phase = "build" /\ phase' = "done"
          /\ \E d \in BOOLEAN :
               /\ desc' = d
               /\ Emit => PrintT(ToJson([conds |-> conds, desc |-> d, rows |-> Select(conds, d), binds |-> Binds(conds),
                                          table |-> IF conds = <<>> /\ ~d THEN Rows ELSE <<>>]))
          /\ UNCHANGED conds
Next == AddCond \/ Finish
Spec == Init /\ [][Next]_vars

(* ---------- sanity theorems ---------- *)
(* De Morgan-like facts of three-valued logic that the encoding of NOT IN / empty lists relies on *)
EmptyListFacts == \A r \in 1 .. Len(Rows) :
   /\ Eval3([k |-> "in", f |-> "a", neg |-> FALSE, vs |-> <<>>], Rows[r]) = "F"
   /\ Eval3([k |-> "in", f |-> "a", neg |-> TRUE, vs |-> <<>>], Rows[r]) = "T"
(* one bind value per placeholder: the number of binds depends only on the shape of the conditions *)
BindCountByShape == phase = "done" => Len(Binds(conds)) = Len(BindsSeq(conds))
=============================================================================
