---------------------------- MODULE UniqueNames ----------------------------
(***************************************************************************)
(* ak/mcaller_sql.py, SqlMethodT._make_unique_names_list: the column names *)
(* of an sql result are made unique (['id','name','id'] -> ['id','name',   *)
(* 'id_1']) - growth item beyond the listed properties.                    *)
(* I-spec: the loop with its per-name counters and the growing set of used *)
(* names, one action per name.  A-level facts checked by TLC on every list *)
(* of the family: AllDistinct, KeepsFirst, RenamedFromOriginal, and a list *)
(* that is unique already comes back unchanged.                            *)
(***************************************************************************)
EXTENDS Naturals, Sequences, FiniteSets, TLC, Json

CONSTANTS Pool, MaxLen, Emit

Suffix(name, n) == name \o "_" \o ToString(n)
VARIABLES names, i, result, counters, used, done
vars == <<names, i, result, counters, used, done>>
ToSet(s) == { s[k] : k \in 1 .. Len(s) }
Unique(s) == Cardinality(ToSet(s)) = Len(s)

Init == /\ names \in UNION { [1 .. n -> Pool] : n \in 0 .. MaxLen }
        /\ i = 1 /\ result = <<>> /\ counters = <<>> /\ used = ToSet(names) /\ done = FALSE
(* smallest n > c with name_n unused *)
RECURSIVE FreeFrom(_, _, _)
FreeFrom(name, n, u) == IF Suffix(name, n) \notin u THEN n ELSE FreeFrom(name, n + 1, u)
Step == /\ ~done /\ ~Unique(names) /\ i <= Len(names)
        /\ LET name == names[i] IN
           IF name \in DOMAIN counters
             THEN LET n == FreeFrom(name, counters[name] + 1, used) IN
                  /\ result' = Append(result, Suffix(name, n))
                  /\ counters' = [counters EXCEPT ![name] = n]
                  /\ used' = used \cup {Suffix(name, n)}
             ELSE /\ result' = Append(result, name)
                  /\ counters' = (name :> 0) @@ counters
                  /\ UNCHANGED used
        /\ i' = i + 1 /\ UNCHANGED <<names, done>>
Finish == /\ ~done /\ (Unique(names) \/ i > Len(names))
          /\ done' = TRUE
          /\ result' = IF Unique(names) THEN names ELSE result
          /\ Emit => PrintT(ToJson([names |-> names, result |-> result']))
          /\ UNCHANGED <<names, i, counters, used>>
Next == Step \/ Finish
Spec == Init /\ [][Next]_vars /\ WF_vars(Next)

AllDistinct == done => Unique(result) /\ Len(result) = Len(names)
KeepsFirst == done => \A k \in 1 .. Len(names) : (\A j \in 1 .. (k - 1) : names[j] # names[k]) => result[k] = names[k]
(* a renamed column never takes a name that another column had originally *)
RenamedFromOriginal == done => \A k \in 1 .. Len(names) : result[k] # names[k] => result[k] \notin ToSet(names)
Terminates == <>done
=============================================================================
