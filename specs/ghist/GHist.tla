--------------------------------- MODULE GHist ---------------------------------
(***************************************************************************)
(* ak/ghist.py: git history report (C06).                                  *)
(*                                                                         *)
(* History: commits 1..n (a commit's parents have smaller numbers: any     *)
(* DAG with merges and several roots), match[c] (the message contains the  *)
(* search text), tagged[c] (a successful build tag), head[b] for the       *)
(* branches in use.  Builder actions: Commit(parents, match), Tag(c),      *)
(* SetHead(b, c), Finish.  Branch order: Rank (release branches by         *)
(* numeric-aware name, master last).                                       *)
(* A-spec: ReportOK(report) - a RELATION, because two incomparable         *)
(* earliest builds may both claim a commit.                                *)
(***************************************************************************)
EXTENDS Naturals, Sequences, FiniteSets, TLC

(* branch names in use and their order: numeric-aware (1.9 < 1.10 < 2.0), master last *)
BranchNames == << "release/1.9", "release/1.10", "release/1.10.1", "master" >>     \* 1.10 is a proper prefix of 1.10.1
Rank(b) == CHOOSE i \in 1 .. Len(BranchNames) : BranchNames[i] = b

(* H: a history record [n, parents, match, tagged, head] ; head: function branch name -> commit *)
RECURSIVE Anc(_, _)
Anc(H, c) == {c} \cup UNION { Anc(H, p) : p \in H.parents[c] }          \* ancestors or self
Reach(H, b) == Anc(H, H.head[b])
Branches(H) == DOMAIN H.head
Before(H, b) == { x \in Branches(H) : Rank(x) < Rank(b) }
Lower(H, b) == UNION { Reach(H, x) : x \in Before(H, b) }
(* builds of a branch: tagged commits of its history and its head, unless part of a lower-sorted branch *)
BuildsOf(H, b) == { c \in Reach(H, b) : (H.tagged[c] \/ c = H.head[b]) /\ c \notin Lower(H, b) }
Containing(H, b, c) == { B \in BuildsOf(H, b) : c \in Anc(H, B) }
Minimal(H, S) == { B \in S : \A B2 \in S : B2 \in Anc(H, B) => B2 = B }
Matching(H) == { c \in 1 .. H.n : H.match[c] }

(* report of one branch: sequence of entries [kind, commit, listed]                              *)
(*   kind "build" / "notbuilt": commit = the build commit; "notmerged": commit = 0               *)
ListedUnder(r, B) == UNION { r[i].listed : i \in { j \in 1 .. Len(r) : r[j].kind # "notmerged" /\ r[j].commit = B } }
ListedBuilds(r) == UNION { r[i].listed : i \in { j \in 1 .. Len(r) : r[j].kind # "notmerged" } }
ListedNotMerged(r) == UNION { r[i].listed : i \in { j \in 1 .. Len(r) : r[j].kind = "notmerged" } }
TimesListed(r, c) == Cardinality({ i \in 1 .. Len(r) : c \in r[i].listed })

BranchOK(H, b, r) ==
  /\ \A i \in 1 .. Len(r) :
       /\ r[i].listed \subseteq Matching(H)                       \* no commit that does not match is listed
       /\ r[i].kind # "notmerged" =>
            /\ r[i].commit \in BuildsOf(H, b)
            /\ (r[i].kind = "notbuilt") <=> (r[i].commit = H.head[b] /\ ~H.tagged[r[i].commit])
            /\ r[i].listed \subseteq Anc(H, r[i].commit)
  /\ \A c \in Matching(H) \cap Reach(H, b) :
       /\ c \notin ListedNotMerged(r)                              \* reachable from the head: never "not merged"
       /\ TimesListed(r, c) <= 1
       /\ Containing(H, b, c) # {} =>
            /\ TimesListed(r, c) = 1
            /\ \E B \in Minimal(H, Containing(H, b, c)) : c \in ListedUnder(r, B)
       /\ Containing(H, b, c) = {} => TimesListed(r, c) = 0
  /\ ListedNotMerged(r) = (Matching(H) \cap Lower(H, b)) \ Reach(H, b)
  /\ \A c \in ListedNotMerged(r) : TimesListed(r, c) = 1

(* the known finding F-C06: the head of the branch is already part of a lower-sorted branch *)
HeadInsideLower(H, b) == H.head[b] \in Lower(H, b)
(* ... and what the code is known to do there: no build at all, matching commits of the lower branches *)
(* under "not merged".  A report of such a branch that deviates from ReportOK in another way is still    *)
(* reported as a violation.                                                                              *)
KnownF06(H, b, r) == /\ HeadInsideLower(H, b)
                     /\ \A i \in 1 .. Len(r) : r[i].kind = "notmerged" /\ r[i].listed \subseteq (Matching(H) \cap Lower(H, b))
                     /\ \A c \in Matching(H) : TimesListed(r, c) <= 1
=============================================================================
