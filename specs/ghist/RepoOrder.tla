-------------------------------- MODULE RepoOrder --------------------------------
(* Repositories are analysed components first (C07, second half): all dependency graphs on NRepos     *)
(* repositories.  A-spec: the order is a permutation of the repositories in which every component      *)
(* precedes its owners; a dependency cycle (incl. a self dependency) must be rejected with ValueError.  *)
EXTENDS Naturals, Sequences, FiniteSets, TLC, Json
CONSTANTS NRepos, Emit
Repos == 1 .. NRepos
VARIABLES deps, phase
vars == <<deps, phase>>
Init == deps \in [Repos -> SUBSET Repos] /\ phase = "new"
RECURSIVE ReachFrom(_, _)
ReachFrom(S, k) == IF k = 0 THEN S ELSE ReachFrom(S \cup UNION { deps[r] : r \in S }, k - 1)
Cyclic == \E r \in Repos : r \in ReachFrom(deps[r], NRepos)
Report == /\ phase = "new" /\ phase' = "done" /\ UNCHANGED deps
          /\ Emit => PrintT(ToJson([deps |-> deps, cyclic |-> Cyclic]))
Next == Report
Spec == Init /\ [][Next]_vars
(* what the driver checks on the real result *)
TopoOK(order) == /\ { order[i] : i \in 1 .. Len(order) } = Repos /\ Len(order) = NRepos
                 /\ \A i, j \in 1 .. Len(order) : order[j] \in deps[order[i]] => j < i
(* sanity: an acyclic graph always has such an order *)
RECURSIVE Topo(_, _)
Topo(done, acc) == IF done = Repos THEN acc
                   ELSE LET r == CHOOSE x \in Repos \ done : deps[x] \subseteq done IN Topo(done \cup {r}, Append(acc, r))
AcyclicHasOrder == ~Cyclic => TopoOK(Topo({}, <<>>))
=============================================================================
