------------------------------ MODULE GHistJudge ------------------------------
(* Judge of reports produced by the real code (code -> spec): one initial state per case           *)
(*  [h |-> history, report |-> [branch name |-> << [kind, commit, listed] >>], order |-> << names >>] *)
(* verdict per branch, so that the known finding stays local to the branches it concerns.           *)
EXTENDS GHist, Json, IOUtils
Cases == ndJsonDeserialize(IOEnv.CASES)
VARIABLES tid, bi, verdict
vars == <<tid, bi, verdict>>
C == Cases[tid]
ToSet(s) == { s[i] : i \in 1 .. Len(s) }
Hist(c) == [n |-> c.h.n, parents |-> [i \in 1 .. c.h.n |-> ToSet(c.h.parents[i])], match |-> c.h.match,
            tagged |-> c.h.tagged, head |-> c.h.head]
Rep(c, b) == IF b \in DOMAIN c.report
               THEN [i \in 1 .. Len(c.report[b]) |-> [kind |-> c.report[b][i].kind, commit |-> c.report[b][i].commit,
                                                       listed |-> ToSet(c.report[b][i].listed)]]
               ELSE <<>>
BSeq(c) == SelectSeq(BranchNames, LAMBDA b : b \in DOMAIN c.h.head)
Init == tid \in 1 .. Len(Cases) /\ bi = 1 /\ verdict = "run"
(* branches of the report come master first, i.e. in decreasing rank *)
OrderOK(c) == \A i \in 1 .. (Len(c.order) - 1) : Rank(c.order[i]) > Rank(c.order[i + 1])
Step == /\ verdict = "run" /\ bi <= Len(BSeq(C))
        /\ LET b == BSeq(C)[bi] IN
             PrintT(<<IF BranchOK(Hist(C), b, Rep(C, b)) THEN "OK" ELSE "BAD", tid, b,
                      IF KnownF06(Hist(C), b, Rep(C, b)) THEN "head-inside-lower" ELSE "plain">>)
        /\ bi' = bi + 1 /\ UNCHANGED <<tid, verdict>>
Finish == /\ verdict = "run" /\ bi > Len(BSeq(C))
          /\ verdict' = "done" /\ PrintT(<<IF OrderOK(C) THEN "ORDER-OK" ELSE "ORDER-BAD", tid>>) /\ UNCHANGED <<tid, bi>>
Next == Step \/ Finish
Spec == Init /\ [][Next]_vars
=============================================================================
