------------------------------ MODULE GHistCases ------------------------------
(* Builder of git histories (see GHist): one action per commit / tag / branch head. *)
EXTENDS GHist, Json
CONSTANTS MaxCommits, MaxTags, MaxBranches, Emit,
          Shape     \* "any": every parents relation; "diamond": 1 <- 2, 1 <- 3, {2,3} <- 4, 3 <- 5 (two parallel lines that are
                    \* merged, and a line that continues one of them) with every choice of matching commits, tags and heads
DiamondParents(i) == CASE i = 1 -> {} [] i \in {2, 3} -> {1} [] i = 4 -> {2, 3} [] OTHER -> {3}
VARIABLES n, parents, match, tagged, head, phase
vars == <<n, parents, match, tagged, head, phase>>
Init == n = 0 /\ parents = <<>> /\ match = <<>> /\ tagged = <<>> /\ head = <<>> /\ phase = "commits"
Commit(ps, m) == /\ phase = "commits" /\ n < MaxCommits
                 /\ (Shape = "diamond" => ps = DiamondParents(n + 1))
                 /\ n' = n + 1 /\ parents' = Append(parents, ps) /\ match' = Append(match, m)
                 /\ tagged' = Append(tagged, FALSE) /\ UNCHANGED <<head, phase>>
EndCommits == phase = "commits" /\ n > 0 /\ (Shape = "diamond" => n = MaxCommits) /\ phase' = "tags" /\ UNCHANGED <<n, parents, match, tagged, head>>
(* tags are put in increasing commit order so that every set of tags is built once *)
LastTag == IF \E c \in 1 .. n : tagged[c] THEN CHOOSE c \in 1 .. n : tagged[c] /\ \A d \in (c + 1) .. n : ~tagged[d] ELSE 0
Tag(c) == /\ phase = "tags" /\ c > LastTag /\ Cardinality({ d \in 1 .. n : tagged[d] }) < MaxTags
          /\ tagged' = [tagged EXCEPT ![c] = TRUE] /\ UNCHANGED <<n, parents, match, head, phase>>
EndTags == phase = "tags" /\ phase' = "heads" /\ UNCHANGED <<n, parents, match, tagged, head>>
(* heads are set in rank order; master always exists and is set last *)
NextBranch == Cardinality(DOMAIN head) + 1
SetHead(b, c) == /\ phase = "heads" /\ b \notin DOMAIN head
                 /\ \A x \in DOMAIN head : Rank(x) < Rank(b)
                 /\ (b # "master" => Cardinality(DOMAIN head) < MaxBranches - 1)
                 /\ head' = (b :> c) @@ head
                 /\ phase' = IF b = "master" THEN "done" ELSE "heads"
                 /\ UNCHANGED <<n, parents, match, tagged>>
Report == /\ phase = "done" /\ phase' = "reported" /\ UNCHANGED <<n, parents, match, tagged, head>>
          /\ Emit => PrintT(ToJson([n |-> n, parents |-> parents, match |-> match, tagged |-> tagged, head |-> head]))
Next == \/ \E ps \in { s \in SUBSET (1 .. n) : Cardinality(s) <= 2 } : \E m \in BOOLEAN : Commit(ps, m)
        \/ EndCommits \/ EndTags \/ Report
        \/ \E c \in 1 .. n : Tag(c)
        \/ \E b \in { BranchNames[i] : i \in 1 .. Len(BranchNames) } : \E c \in 1 .. n : SetHead(b, c)
Spec == Init /\ [][Next]_vars

H0 == [n |-> n, parents |-> parents, match |-> match, tagged |-> tagged, head |-> head]
(* sanity of the relation: it is satisfiable - the canonical report (every commit under the smallest   *)
(* numbered minimal build) is accepted for every history                                              *)
Canon(b) ==
  LET bs == BuildsOf(H0, b)
      pick(c) == CHOOSE B \in Minimal(H0, Containing(H0, b, c)) : \A B2 \in Minimal(H0, Containing(H0, b, c)) : B <= B2
      blds == { B \in bs : \E c \in Matching(H0) \cap Reach(H0, b) : Containing(H0, b, c) # {} /\ pick(c) = B }
      seqOf(S) == CHOOSE s \in [1 .. Cardinality(S) -> S] : \A i, j \in 1 .. Cardinality(S) : i < j => s[i] < s[j]
      bseq == seqOf(blds)
      nm == (Matching(H0) \cap Lower(H0, b)) \ Reach(H0, b) IN
  [i \in 1 .. Len(bseq) |-> [kind |-> IF bseq[i] = head[b] /\ ~tagged[bseq[i]] THEN "notbuilt" ELSE "build", commit |-> bseq[i],
                             listed |-> { c \in Matching(H0) \cap Reach(H0, b) : Containing(H0, b, c) # {} /\ pick(c) = bseq[i] }]]
  \o (IF nm = {} THEN <<>> ELSE << [kind |-> "notmerged", commit |-> 0, listed |-> nm] >>)
Satisfiable == phase \in {"done", "reported"} => \A b \in DOMAIN head : BranchOK(H0, b, Canon(b))
=============================================================================
