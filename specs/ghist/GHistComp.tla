------------------------------- MODULE GHistComp -------------------------------
(***************************************************************************)
(* ak/ghist.py: component builds and the parent builds that ship them (C07)*)
(*                                                                         *)
(* Component repository "lib": a history 1..k on master (a DAG: commits    *)
(* have 0-2 earlier commits as parents, the head is commit k), matching    *)
(* flags, build tags (build numbers grow with the commit number).          *)
(* Parent repository "app": a history as in GHist whose commits pin a      *)
(* component build (pin[c] = a tagged component commit), never decreasing  *)
(* along a path.                                                           *)
(* A-spec:                                                                 *)
(*  RB          the report-related component builds (builds that list a    *)
(*              matching component commit)                                 *)
(*  IncludedAt(CB) = { <<b, B>> : B is an ancestry-minimal build (or the   *)
(*              unbuilt head) of parent branch b whose pin contains CB }   *)
(*  every such B is reported in branch b even without own matching commits *)
(***************************************************************************)
EXTENDS GHist, Json
CONSTANTS MaxComp, MaxCommits, MaxTags, MaxBranches, Emit,
          Diamond,     \* TRUE: the component graph is the diamond 1 <- 2, 1 <- 3, {2, 3} <- 4 with at most one tag per commit
          Sideways,    \* TRUE: a pin may move to a build with a higher number that does not contain the old one (a parallel build);
                       \* only pairs in which some pin really moves sideways are reported then
          LinearParent \* TRUE: the parent history is one line of commits

VARIABLES ck, cmatch, ctagged,                 \* component; ctagged[c] = number of build tags on commit c (0..2)
          cparents,                             \* component commit graph
          n, parents, match, tagged, head, pin, \* parent
          pin2,                                 \* pin2[c]: the parent commit names the SECOND build tag of pin[c]
          phase
vars == <<ck, cmatch, ctagged, cparents, n, parents, match, tagged, head, pin, pin2, phase>>

CTagged == { c \in 1 .. ck : ctagged[c] > 0 }
RECURSIVE CAnc(_)
CAnc(c) == {c} \cup UNION { CAnc(p) : p \in cparents[c] }                 \* component ancestors or self
(* for a LINEAR component the report-related builds are a function of the history (used by the sanity          *)
(* invariants only; the judge takes the report-related builds from the component's own report)                 *)
PrevTag(t) == IF \E x \in CTagged : x < t THEN CHOOSE x \in CTagged : x < t /\ \A y \in CTagged : y < t => y <= x ELSE 0
Linear == \A c \in 1 .. ck : cparents[c] = (IF c = 1 THEN {} ELSE {c - 1})
RB == { t \in CTagged : \E c \in (PrevTag(t) + 1) .. t : cmatch[c] }

Init == /\ ck = 0 /\ cmatch = <<>> /\ ctagged = <<>> /\ cparents = <<>> /\ n = 0 /\ parents = <<>> /\ match = <<>> /\ tagged = <<>>
        /\ head = <<>> /\ pin = <<>> /\ pin2 = <<>> /\ phase = "comp"
DiamondParents(c) == CASE c = 1 -> {} [] c = 2 -> {1} [] c = 3 -> {1} [] OTHER -> {2, 3}
CompCommit(ps, m, t) == /\ phase = "comp" /\ ck < (IF Diamond THEN 4 ELSE MaxComp)
                    /\ (ck > 0 => ps # {})                    \* one root: everything is an ancestor of the head
                    /\ (Diamond => ps = DiamondParents(ck + 1) /\ t <= 1)
                    /\ ck' = ck + 1 /\ cmatch' = Append(cmatch, m) /\ ctagged' = Append(ctagged, t)
                    /\ cparents' = Append(cparents, ps)
                    /\ UNCHANGED <<n, parents, match, tagged, head, pin, pin2, phase>>
EndComp == /\ phase = "comp" /\ CTagged # {} /\ phase' = "commits" /\ (Diamond => ck = 4)
           /\ \A c \in 1 .. ck : c \in CAnc(ck)               \* every component commit is reachable from the head
           /\ UNCHANGED <<ck, cmatch, ctagged, cparents, n, parents, match, tagged, head, pin, pin2>>
Commit(ps, m, tg, pn, p2) ==
  /\ phase = "commits" /\ n < MaxCommits
  /\ (LinearParent => ps = (IF n = 0 THEN {} ELSE {n}))
  /\ pn \in CTagged
  /\ IF Sideways THEN \A p \in ps : pin[p] <= pn             \* the version NUMBER never decreases (the new pin may be a parallel build)
                  ELSE \A p \in ps : pin[p] \in CAnc(pn)      \* the pinned version never decreases along a path: it contains the old pin
  /\ (p2 => ctagged[pn] = 2)
  /\ (Diamond => \A p \in ps : pin[p] # pn \/ TRUE)
  /\ \A p \in ps : (pin[p] = pn /\ pin2[p]) => p2
  /\ (tg => Cardinality({ d \in 1 .. n : tagged[d] }) < MaxTags)
  /\ n' = n + 1 /\ parents' = Append(parents, ps) /\ match' = Append(match, m)
  /\ tagged' = Append(tagged, tg) /\ pin' = Append(pin, pn) /\ pin2' = Append(pin2, p2)
  /\ UNCHANGED <<ck, cmatch, ctagged, cparents, head, phase>>
EndCommits == /\ phase = "commits" /\ n > 0 /\ phase' = "heads"
              /\ UNCHANGED <<ck, cmatch, ctagged, cparents, n, parents, match, tagged, head, pin, pin2>>
H0 == [n |-> n, parents |-> parents, match |-> match, tagged |-> tagged, head |-> head]
SetHead(b, c) == /\ phase = "heads" /\ b \notin DOMAIN head
                 /\ \A x \in DOMAIN head : Rank(x) < Rank(b)
                 /\ (b # "master" => Cardinality(DOMAIN head) < MaxBranches - 1)
                 (* family restriction: no head inside a lower-sorted branch (finding F-C06 lives there) *)
                 /\ c \notin UNION { Anc(H0, head[x]) : x \in DOMAIN head }
                 /\ head' = (b :> c) @@ head
                 /\ phase' = IF b = "master" THEN "done" ELSE "heads"
                 /\ UNCHANGED <<ck, cmatch, ctagged, cparents, n, parents, match, tagged, pin, pin2>>

(* ---------------- A-spec ---------------- *)
Ships(B, CB) == CB \in CAnc(pin[B])                           \* the pinned build contains CB
FirstShipping(b, CB) ==
  LET cand == { B \in BuildsOf(H0, b) : Ships(B, CB) } IN Minimal(H0, cand)
IncludedAt(CB) == { <<b, B>> : b \in DOMAIN head, B \in 1 .. n } \cap
                  UNION { { <<b, B>> : B \in FirstShipping(b, CB) } : b \in DOMAIN head }

HasSideways == \E c \in 1 .. n : \E p \in parents[c] : pin[p] \notin CAnc(pin[c])
Report == /\ phase = "done" /\ phase' = "reported"
          /\ (Emit /\ (Sideways => HasSideways)) => PrintT(ToJson([ck |-> ck, cmatch |-> cmatch, ctagged |-> ctagged, cparents |-> cparents, linear |-> Linear,
                                    h |-> [n |-> n, parents |-> parents, match |-> match, tagged |-> tagged, head |-> head],
                                    pin |-> pin, pin2 |-> pin2, rb |-> RB,
                                    incl |-> [cb \in CTagged |-> IncludedAt(cb)]]))
          /\ UNCHANGED <<ck, cmatch, ctagged, cparents, n, parents, match, tagged, head, pin, pin2>>
Next == \/ \E ps \in { s \in SUBSET (1 .. ck) : Cardinality(s) <= 2 } : \E m \in BOOLEAN : \E t \in 0 .. 2 : CompCommit(ps, m, t)
        \/ EndComp \/ EndCommits \/ Report
        \/ \E ps \in { s \in SUBSET (1 .. n) : Cardinality(s) <= 2 } : \E m \in BOOLEAN : \E tg \in BOOLEAN : \E pn \in 1 .. ck : \E p2 \in BOOLEAN : Commit(ps, m, tg, pn, p2)
        \/ \E b \in { BranchNames[i] : i \in 1 .. Len(BranchNames) } : \E c \in 1 .. n : SetHead(b, c)
Spec == Init /\ [][Next]_vars

(* sanity: on every branch every report-related component build that the head ships is included somewhere, *)
(* and never at two builds one of which contains the other                                               *)
IncludedSomewhere == phase \in {"done", "reported"} =>
  \A cb \in CTagged : \A b \in DOMAIN head :
     (cb \in CAnc(pin[head[b]])) => \E B \in 1 .. n : <<b, B>> \in IncludedAt(cb)
NeverTwiceOnAPath == phase \in {"done", "reported"} =>
  \A cb \in CTagged : \A x \in IncludedAt(cb) : \A y \in IncludedAt(cb) :
     (x[1] = y[1] /\ x[2] # y[2]) => (x[2] \notin Anc(H0, y[2]) /\ y[2] \notin Anc(H0, x[2]))
=============================================================================
