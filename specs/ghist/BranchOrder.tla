------------------------------- MODULE BranchOrder -------------------------------
(***************************************************************************)
(* Order of release branches in the history report (part of C06): names    *)
(* are split into chunks at '/', '.', '-', '_'; numeric chunks compare as  *)
(* numbers and sort before text chunks; text chunks compare by code point; *)
(* a proper prefix sorts first; master (or main) always comes last.        *)
(* Builder: a branch name is a sequence of 1..MaxChunks chunks after the   *)
(* "release" chunk; the case is a set of such names.  TLC checks that the  *)
(* comparison is a strict total order on distinct chunk sequences and      *)
(* emits the expected sorted order for the driver.                         *)
(***************************************************************************)
EXTENDS Naturals, Sequences, FiniteSets, TLC, Json
CONSTANTS MaxChunks, NNames, Emit

(* chunks: numbers and words; TLC has no order on strings, so words carry their rank explicitly *)
Num(n) == [k |-> "num", v |-> n, s |-> ""]
Word(w, r) == [k |-> "word", v |-> r, s |-> w]
Chunks == { Num(1), Num(2), Num(9), Num(10), Num(100), Word("A", 1), Word("a", 2), Word("b", 3), Word("rc", 4), Word("x10", 5) }
Names == UNION { [1 .. n -> Chunks] : n \in 1 .. MaxChunks }

ChunkLess(x, y) == IF x.k = "num" /\ y.k = "num" THEN x.v < y.v
                   ELSE IF x.k = "num" THEN TRUE ELSE IF y.k = "num" THEN FALSE ELSE x.v < y.v
RECURSIVE Less(_, _)
Less(a, b) == IF b = <<>> THEN FALSE ELSE IF a = <<>> THEN TRUE
              ELSE IF Head(a) = Head(b) THEN Less(Tail(a), Tail(b)) ELSE ChunkLess(Head(a), Head(b))

VARIABLES names, phase
vars == <<names, phase>>
Init == names = {} /\ phase = "pick"
Pick == /\ phase = "pick" /\ Cardinality(names) < NNames
        /\ \E nm \in Names : nm \notin names /\ names' = names \cup {nm}
        /\ UNCHANGED phase
RECURSIVE SortSet(_)
SortSet(S) == IF S = {} THEN <<>> ELSE LET m == CHOOSE x \in S : \A y \in S : y = x \/ Less(x, y) IN <<m>> \o SortSet(S \ {m})
Report == /\ phase = "pick" /\ Cardinality(names) = NNames /\ phase' = "done" /\ UNCHANGED names
          /\ Emit => PrintT(ToJson([sorted |-> SortSet(names)]))
Next == Pick \/ Report
Spec == Init /\ [][Next]_vars

(* the comparison is a strict total order *)
StrictTotal == \A a \in names : \A b \in names :
                  /\ ~Less(a, a)
                  /\ (a # b => (Less(a, b) \/ Less(b, a)) /\ ~(Less(a, b) /\ Less(b, a)))
                  /\ \A c \in names : (Less(a, b) /\ Less(b, c)) => Less(a, c)
=============================================================================
